#!/usr/bin/env python3
"""Regenerates /verif/MANIFEST.json from the table below (kept in one place so
MANIFEST stays valid and current)."""
import json, os
ROOT = os.path.dirname(os.path.dirname(os.path.abspath(__file__)))

LEVEL_NOTE = ("Trusted base: the reference model and judge in harness/src (model.rs, world.rs, interp.rs), "
              "hooks H1-H3 in /repo (cfg cactusref_verif), the guard-page arena allocator, proptest's generators. "
              "Absence is shown only for the explored sizes (DESIGN.md section 7).")

CHECKS = {
 "C01": ("model-based stateful property testing (proptest) with fork-per-case executor; oracle: reachability upper bound on destruction evaluated online at every destructor start and free",
         "No destructor start or RcBox release of an object reachable from held handles, and every held handle dereferences to the intact value, over generated contract-respecting histories on a guard-page arena.", "4 C01"),
 "C02": ("model-based stateful property testing (proptest) on a guard-page checking allocator with poisoned moved-out fields; oracle: at-most-once destructor log + allocator faults",
         "Each value destroyed at most once, no double/invalid free, no access to released or moved-out memory (object storage and link tables), no library panic, over generated histories; both build profiles in the thorough tier.", "4 C02"),
 "C03": ("model-based stateful property testing (proptest); oracle: rules A/B lower bound evaluated at every strong-handle drop event on the reference model",
         "Whenever the statement's orphan condition holds at a drop (top-level or nested), every member is destroyed before that drop returns.", "4 C03"),
 "C04": ("model-based stateful property testing (proptest) with allocation accounting in the arena allocator",
         "RcBox released iff destroyed and no Weak remains; bookkeeping storage released with its owners; zero live blocks after full cleanup.", "4 C04"),
 "C05": ("model-based stateful property testing (proptest); oracle: Weak::upgrade/strong_count/weak_count vs destructor log, including calls from inside destructors",
         "upgrade is Some iff the value has not been destroyed (group members count as destroyed from the moment the group teardown starts); dead Weaks report 0/0; allocation valid until last Weak drop.", "4 C05"),
 "C06": ("model-based stateful property testing (proptest); oracle: handle-instance ledger vs strong_count/weak_count/ptr_eq/as_ptr after every op and inside destructors",
         "Counts equal the number of existing handle instances at every quiescent point and at destructor observation points; identity stable.", "4 C06"),
 "C08": ("model-based stateful property testing (proptest); oracle: link-table snapshots (hook H1) vs adoption ledger after every op",
         "Tables equal the multiset of adoptions implied by the calls, mirrored on both ends, never naming a destroyed object.", "4 C08"),
}
NOT_YET = {}

def main():
    checks = []
    for pid, (tech, text, ref) in sorted(CHECKS.items()):
        checks.append({
            "property_id": pid,
            "quick_cmd": f"./check {pid} --tier quick",
            "thorough_cmd": f"./check {pid} --tier thorough",
            "evidence_file": f"/verif/evidence/{pid}.json",
            "replay_cmd_template": f"./check {pid} --replay {{path}}",
            "engine": "cxcheck",
            "level_claimed": {"category": "exploration", "text": text, "design_ref": f"DESIGN.md section {ref}"},
            "level_note": LEVEL_NOTE,
            "technique": tech,
        })
    allp = [json.loads(l)["id"] for l in open(os.path.join(ROOT, "properties.jsonl"))]
    na = [{"property_id": p, "reason": NOT_YET.get(p, "check under construction in this session; not claimed until it has been calibrated on the unchanged tree and against seeded changes")} for p in allp if p not in CHECKS]
    m = {
        "version": 1,
        "setup_cmd": "cd /verif/harness && CARGO_NET_OFFLINE=true cargo build --release",
        "hooks": {
            "guard": "cactusref_verif",
            "enable": "RUSTFLAGS=--cfg cactusref_verif (set in /verif/harness/.cargo/config.toml; the harness depends on /repo by path and is rebuilt by ./check on every invocation)",
            "baseline_off_cmd": "cd /repo && cargo test --workspace --no-fail-fast --offline",
            "source_commits": open(os.path.join(ROOT, "tools/hook_commits.txt")).read().split(),
            "add_only": True,
        },
        "engines": [
            {"name": "cxcheck", "path": "/verif/harness", "serves_properties": sorted(CHECKS), "kind_free_text": "proptest-driven stateful generator + fork-per-case executor on a fixed-address guard-page arena + online reference model/judge"},
        ],
        "checks": checks,
        "not_applicable": na,
        "notes": "See DESIGN.md. Exit codes of every check: 0 held, 1 VIOLATION line, 2 undecided (build failure, watchdog, harness-internal error).",
    }
    json.dump(m, open(os.path.join(ROOT, "MANIFEST.json"), "w"), indent=1)

main()
