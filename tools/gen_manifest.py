#!/usr/bin/env python3
"""Regenerates /verif/MANIFEST.json from the table below (kept in one place so
MANIFEST stays valid and current)."""
import json, os
ROOT = os.path.dirname(os.path.dirname(os.path.abspath(__file__)))

LEVEL_NOTE = ("Trusted base: the reference model and judge in harness/src (model.rs, world.rs, interp.rs), "
              "hooks H1-H3 in /repo (cfg cactusref_verif), the guard-page arena allocator, proptest's generators. "
              "Absence is shown only for the explored sizes (DESIGN.md section 7).")

CHECKS = {
 "C01": ("model-based stateful property testing (proptest) with fork-per-case executor; oracle: reachability upper bound on destruction evaluated online at every destructor start and free",
         "No destructor start or RcBox release of an object reachable from held handles, and every held handle dereferences to the intact value, over generated contract-respecting histories on a guard-page arena.", "4 C01"),
 "C02": ("model-based stateful property testing (proptest) on a guard-page checking allocator with poisoned moved-out fields; oracle: at-most-once destructor log + allocator faults",
         "Each value destroyed at most once, no double/invalid free, no access to released or moved-out memory (object storage and link tables), no library panic, over generated histories; both build profiles in the thorough tier.", "4 C02"),
 "C03": ("model-based stateful property testing (proptest); oracle: rules A/B lower bound evaluated at every strong-handle drop event on the reference model",
         "Whenever the statement's orphan condition holds at a drop (top-level or nested), every member is destroyed before that drop returns.", "4 C03"),
 "C04": ("model-based stateful property testing (proptest) with allocation accounting in the arena allocator",
         "RcBox released iff destroyed and no Weak remains; bookkeeping storage released with its owners; zero live blocks after full cleanup.", "4 C04"),
 "C05": ("model-based stateful property testing (proptest); oracle: Weak::upgrade/strong_count/weak_count vs destructor log, including calls from inside destructors",
         "upgrade is Some iff the value has not been destroyed (group members count as destroyed from the moment the group teardown starts); dead Weaks report 0/0; allocation valid until last Weak drop.", "4 C05"),
 "C06": ("model-based stateful property testing (proptest); oracle: handle-instance ledger vs strong_count/weak_count/ptr_eq/as_ptr after every op and inside destructors",
         "Counts equal the number of existing handle instances at every quiescent point and at destructor observation points; identity stable.", "4 C06"),
 "C07": ("differential property testing (proptest): generated straight-line programs interpreted over cactusref and over std::rc; oracle: equality of observation traces (results, counts, pointer-equality relations, formatted text, hashes, how often each handle-level comparison / hash / format call forwards to the payload) and ordered destructor logs",
         "Same results from every shared API call and the same sequence of value destructions as std::rc::{Rc,Weak} of the installed toolchain, over generated no-adoption programs with values owning strong and Weak handles, payload alignments 8..128, a panicking Clone, and the shared API on non-Eq / zero-sized / odd-sized payloads (f64 with NaN, f32, u8, (), [u8;3], Option<f64>, (u8,f32)).", "4 C07"),
 "C08": ("model-based stateful property testing (proptest); oracle: link-table snapshots (hook H1) vs adoption ledger after every op",
         "Tables equal the multiset of adoptions implied by the calls, mirrored on both ends, never naming a destroyed object; SAFE, CONSUME and ELIDE (known finding excluded) histories.", "4 C08"),
 "C09": ("metamorphic property testing (proptest): each generated history replayed under K perturbed heap layouts in separate forks; oracle: equal per-op destroyed sets and counts",
         "What each operation destroys and every count observable afterwards is identical across K layouts (different addresses, hence different FxHash values and table iteration orders); fully recorded histories, a quarter of them with the handle-consuming ops (also make_mut in place on stored handles).", "4 C09"),
 "C10": ("model-based stateful property testing (proptest) with generated destructor action scripts (re-entrant API use); oracle: views of C01-C06 on the nested event log + no library panic",
         "Destructors that clone/drop/adopt/unadopt/downgrade/upgrade on outsiders (incl. nested collections) during every teardown path leave all C01-C06 views intact and meet no borrow conflict.", "4 C10"),
 "C11": ("fault injection driven by property testing (proptest): one armed panic per op inside generated payload destructors, run under catch_unwind; oracle: at-most-once log, reachability bound, Weak views, allocator faults, history continues",
         "Fault enumeration over every small group shape (<= 3 objects) x every object as the panicking one x every drop order (every 8th case in the quick tier, all 296k in the thorough tier) plus generated histories: a panic at any member position of any teardown path propagates, destroys nothing twice, frees nothing twice, leaves reachable objects intact (value, counts, link tables) and Weaks reporting dead; a quarter of the generated histories elide unadopt (known finding D4 excluded by construction).", "4 C11"),
 "C12": ("model-based stateful property testing (proptest) over the handle-consuming API on linked objects; oracle: table snapshots, allocator faults, value moved/cloned exactly once, allocation accounting",
         "try_unwrap/make_mut/get_mut/raw round trips/inc/dec on objects with adoption records leave no peer record naming the given-up allocation and later drops touch no freed memory.", "4 C12"),
 "C13": ("model-based stateful property testing (proptest) over histories with elided unadopt; oracle: reachability bound + allocator faults; known finding D4 excluded by an exact model predicate evaluated before each drop",
         "Apart from the listed known finding (exact signature in known_findings.json), no history with elided unadopt destroys a reachable object or touches freed memory.", "4 C13"),
 "C14": ("model-based stateful property testing (proptest) with cost instrumentation; oracle: trace counter (hook H2) and arena allocation counters around every clone/drop of a handle to an object without recorded adoptions",
         "Every clone, and every drop of a handle to an object with no recorded adoption, runs zero traces and zero allocations (zero frees if the object stays alive); SAFE, NO-ADOPT, CONSUME and ELIDE histories, emptied hubs up to 70k adoptees.", "4 C14"),
 "C15": ("property testing over generated size/shape parameters (proptest), final drop on a 128 KiB stack in a forked child; oracle: completion, destructor count, hook counters bounded linearly",
         "Orphaned groups up to 20k (quick) / 300k (thorough) objects are reclaimed on a 128 KiB stack with <= 8N+8 table scans and <= 8(N+E)+8 worklist pops (plus instruction-count growth probes, three of them with a Trace / Debug level sink logger) over all traces of the final drop.", "4 C15"),
 "C16": ("model-based stateful property testing (proptest) with process-level oracle: fork per case, exit status of the child",
         "Cloning a stored handle to a destroyed (or condemned) peer from a destructor (Clone::clone, or Clone::clone_from into another stored handle) terminates the child by SIGILL/SIGABRT/SIGTRAP before the clone returns; clones of live peers succeed; drops of dead handles are inert.", "4 C16"),
}
NOT_YET = {}

def main():
    checks = []
    BIG = {"C01", "C02", "C03", "C04", "C05", "C06", "C09", "C10", "C11", "C12", "C14", "C15", "C16"}
    TYPES = {"C01", "C02", "C03", "C04", "C05", "C06", "C08", "C09", "C11", "C12"}
    SWEEP = {"C01", "C02", "C03", "C04", "C05", "C06", "C08"}
    FUZZ = {"C01", "C02", "C03", "C05", "C06", "C08", "C10", "C12"}
    for pid, (tech, text, ref) in sorted(CHECKS.items()):
        extra = []
        if pid in BIG:
            extra.append("large-scale cases under the same oracle (generated: rings with adopted tails / chords / sinks up to 8k quick / 120k thorough objects, payload with and without drop glue; per property also sole-holder sweeps over every ring member, complete digraphs up to 1.2M records, nested-collection chains up to 20000 deep, emptied hubs up to 70k adoptees, panicking / cloning destructors)")
        if pid in TYPES:
            extra.append("payload-type matrix: generated histories on Rc<T> for 12 payload types (zero-sized, sizes not a multiple of 8, > 4 KiB, 70 KB, align 256 / 4096, with and without drop glue / destructor) with ownership kept outside the values, destructor-time releases of handles to dying peers and (C01-C03, C11) panicking destructors, same reference model")
        if pid in SWEEP:
            extra.append("small-scope sweep over all adoption multigraphs on <= 3 objects x kept roots x Weaks x drop orders (1.95M histories; quick: every 48th, thorough: all, exhaustive)")
        if pid in FUZZ:
            extra.append("thorough: coverage-guided libFuzzer+ASan campaign over the same interpreter and judge, artifacts re-judged by the fork executor")
        if extra:
            text = text + " Also: " + "; ".join(extra) + "."
        checks.append({
            "property_id": pid,
            "quick_cmd": f"./check {pid} --tier quick",
            "thorough_cmd": f"./check {pid} --tier thorough",
            "evidence_file": f"/verif/evidence/{pid}.json",
            "replay_cmd_template": f"./check {pid} --replay {{path}}",
            "engine": "cxcheck",
            "level_claimed": {"category": "fault_enumeration" if pid == "C11" else "exploration", "text": text, "design_ref": f"DESIGN.md section {ref} and section 10"},
            "level_note": LEVEL_NOTE,
            "technique": tech,
        })
    allp = [json.loads(l)["id"] for l in open(os.path.join(ROOT, "properties.jsonl"))]
    na = [{"property_id": p, "reason": NOT_YET.get(p, "check under construction in this session; not claimed until it has been calibrated on the unchanged tree and against seeded changes")} for p in allp if p not in CHECKS]
    m = {
        "version": 1,
        "setup_cmd": "cd /verif/harness && CARGO_NET_OFFLINE=true cargo build --release",
        "hooks": {
            "guard": "cactusref_verif",
            "enable": "RUSTFLAGS=--cfg cactusref_verif (set in /verif/harness/.cargo/config.toml; the harness depends on /repo by path and is rebuilt by ./check on every invocation)",
            "baseline_off_cmd": "cd /repo && cargo test --workspace --no-fail-fast --offline",
            "source_commits": open(os.path.join(ROOT, "tools/hook_commits.txt")).read().split(),
            "add_only": True,
        },
        "engines": [
            {"name": "cxcheck", "path": "/verif/harness", "serves_properties": sorted(CHECKS), "kind_free_text": "proptest-driven stateful generators (script histories, large-scale shape cases, payload-type matrix histories, differential programs, scaling cases) + fork-per-case executor on a fixed-address guard-page arena + online reference model/judge; small-scope sweep (a slice in the quick tier, exhaustive in the thorough tier; C01-C06, C08, C11) and thorough-tier workers on a plain release profile"},
            {"name": "cxfuzz", "path": "/verif/fuzz", "serves_properties": ["C01", "C02", "C03", "C05", "C06", "C08", "C10", "C12"], "kind_free_text": "cargo-fuzz / libFuzzer + AddressSanitizer target driving the same interpreter, model and judge in-process (thorough tier, -runs bounded); every artifact is re-judged by cxcheck before it is reported"},
        ],
        "checks": checks,
        "not_applicable": na,
        "notes": "See DESIGN.md. Exit codes of every check: 0 held, 1 VIOLATION line, 2 undecided (build failure, watchdog, harness-internal error).",
    }
    json.dump(m, open(os.path.join(ROOT, "MANIFEST.json"), "w"), indent=1)

main()
