#!/bin/bash
# E2 campaign for the thorough tier (DESIGN §3.5 / §10): coverage-guided
# libFuzzer + ASan run of the history interpreter, bounded by -runs.
#   usage: fuzz_tier.sh <PROP> [runs-per-job] [jobs]
# Prints FUZZ lines; exit 0 nothing found for PROP, 1 = violation of PROP
# reproduced by E1 (prints VIOLATION line), 2 = could not run.
ROOT="$(cd "$(dirname "$0")/.." && pwd)"
PROP=$1; RUNS=${2:-12000}; JOBS=${3:-16}; SEED=${VERIF_SEED:-1}
export CARGO_NET_OFFLINE=true RUSTFLAGS="--cfg cactusref_verif" ASAN_OPTIONS=detect_leaks=0:abort_on_error=1
cd "$ROOT/fuzz" || exit 2
if ! cargo +nightly fuzz build --fuzz-dir "$ROOT/fuzz" hist >"$ROOT/fuzz/build.log" 2>&1; then
  echo "FUZZ: build failed" >&2; tail -5 "$ROOT/fuzz/build.log" >&2; exit 2
fi
W="$ROOT/fuzz/target/campaign-$PROP-$$"; rm -rf "$W"; mkdir -p "$W/corpus" "$W/seeds" "$W/art"
tar xzf "$ROOT/fuzz/seeds.tar.gz" -C "$W/seeds"
BIN="$ROOT/fuzz/target/x86_64-unknown-linux-gnu/release/hist"
( cd "$W" && "$BIN" corpus seeds -runs=$RUNS -seed=$SEED -len_control=0 -max_len=256 -jobs=$JOBS -workers=$JOBS \
    -artifact_prefix="$W/art/" -rss_limit_mb=6000 -timeout=60 >"$W/fuzz.log" 2>&1 )
execs=$(grep -h "^Done" "$W"/fuzz-*.log 2>/dev/null | awk '{s+=$2} END {print s+0}')
cov=$(grep -h "DONE" "$W"/fuzz-*.log 2>/dev/null | sed 's/.*cov: \([0-9]*\).*/\1/' | sort -n | tail -1)
echo "FUZZ: property=$PROP jobs=$JOBS runs_per_job=$RUNS executions=$execs max_cov_edges=${cov:-0} artifacts=$(ls "$W/art" | wc -l)"
rc=0
for a in "$W"/art/*; do
  [ -f "$a" ] || continue
  out="$ROOT/replays/found/$PROP-fuzz-$(basename "$a" | cut -c1-24).json"
  "$ROOT/harness/target/release/cxcheck" fuzzjudge "$PROP" "$a" "$out"; j=$?
  if [ $j -eq 1 ]; then echo "VIOLATION property=$PROP replay=$out"; rc=1; else rm -f "$out"; echo "FUZZ: artifact $(basename "$a") is not a violation of $PROP under E1 (judge exit $j)"; fi
done
rm -rf "$W"
exit $rc
