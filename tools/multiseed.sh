#!/bin/bash
# Runs every quick check under several seeds; prints one line per run and a
# summary of anything that is not exit 0.  usage: multiseed.sh "2 3 4" ["C01 C02 ..."]
SEEDS="${1:-2 3 4 5 6}"
PROPS="${2:-C01 C02 C03 C04 C05 C06 C07 C08 C09 C10 C11 C12 C13 C14 C15 C16}"
bad=0
for s in $SEEDS; do for p in $PROPS; do
  out=$(VERIF_SEED=$s ./check $p --tier quick 2>&1); rc=$?
  echo "seed=$s $p rc=$rc $(echo "$out" | grep -E "^C[0-9]+ " | head -1)"
  if [ $rc -ne 0 ]; then bad=$((bad+1)); echo "$out" | tail -5; fi
done; done
echo "NONZERO_RUNS=$bad"
