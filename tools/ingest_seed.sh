#!/bin/bash
# usage: ingest_seed.sh <worktree-suffix e.g. C04> <seed-name e.g. C04-stale-weak-count> "<props to run>"
# Verifies a sub-agent's seeded change independently (existing tests pass with
# it; its demo fails with it and passes without it), stores it under
# /verif/seeded/<name>/ and runs the given checks against it in a scratch copy.
set -u
W=${WT:-/tmp/seed_$1}; NAME=$2; PROPS="${3:-}"
D=/verif/seeded/$NAME
[ -d $W/SEEDED ] || { echo "no SEEDED dir in $W"; exit 1; }
mkdir -p $D
cd $W
git diff -- src > $D/patch.diff
cp tests/seeded_demo.rs $D/seeded_demo.rs 2>/dev/null || cp SEEDED/seeded_demo.rs $D/seeded_demo.rs
cp SEEDED/notes.md $D/notes.md 2>/dev/null
echo "== existing suite with the change (demo excluded)"
mv tests/seeded_demo.rs /tmp/seeded_demo_$1.rs
cargo test --offline --no-fail-fast > /tmp/ingest_$1_suite.log 2>&1; suite_rc=$?
grep -E "^test result|FAILED|failed" /tmp/ingest_$1_suite.log | sort | uniq -c | head
mv /tmp/seeded_demo_$1.rs tests/seeded_demo.rs
echo "== demo with the change"
cargo test --offline --test seeded_demo > /tmp/ingest_$1_demo1.log 2>&1; with_rc=$?
tail -3 /tmp/ingest_$1_demo1.log
echo "== demo without the change"
git apply -R $D/patch.diff
cargo test --offline --test seeded_demo > /tmp/ingest_$1_demo0.log 2>&1; without_rc=$?
tail -3 /tmp/ingest_$1_demo0.log
git apply $D/patch.diff
echo "suite_rc=$suite_rc demo_with_change_rc=$with_rc demo_without_change_rc=$without_rc"
cat > $D/verify.txt <<EOT
existing suite with the change (cargo test --offline --no-fail-fast, demo excluded): exit $suite_rc
demo with the change (cargo test --offline --test seeded_demo): exit $with_rc
demo without the change: exit $without_rc
EOT
if [ -n "$PROPS" ]; then
  echo "== checks against the change"
  /verif/mutants/run_mutants.sh -p "$PROPS" $D/patch.diff 2>&1 | tail -2 | tee -a $D/verify.txt
fi
