#!/bin/bash
# Re-runs every seeded change (seeded/*/patch.diff) against the check of the
# property it breaks (scratch copy; /repo untouched).  Prints one line each.
cd /verif
for d in seeded/*/; do
  n=$(basename $d)
  p=$(python3 -c "import json;print(json.load(open('$d/meta.json'))['breaks_property'])")
  extra=""
  [ "$p" = "C02" ] && [ "$n" = "C02-remove-underflow-keeps-entry" ] && extra=" C13"
  mutants/run_mutants.sh -c ${CASES:-40000} -p "$p$extra" /verif/$d/patch.diff 2>&1 | tail -1 | sed "s#/verif/seeded/##"
done
