#![no_main]
// E2: coverage-guided fuzzing of adoption histories (DESIGN §3.5).  The
// semantic oracle (reference model + judge) runs inside the target; ASan is
// the independent memory oracle.
use libfuzzer_sys::fuzz_target;

fuzz_target!(|data: &[u8]| {
    cxcheck::fuzz::run_bytes(data);
});
