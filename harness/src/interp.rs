//! The interpreter: applies script ops to the real library and to the model
//! in lock step, audits after every op (DESIGN §3.1, §4).

use crate::arena::{self, CtxKind};
use crate::exec::{self, shared, violate, violate_soft, Phase, View};
use crate::model::*;
use crate::script::*;
use crate::world::*;
use cactusref::{Adopt, Rc, Weak};
use std::panic::{catch_unwind, AssertUnwindSafe};

pub const MAX_OBJECTS: usize = 60;

pub struct Injected;

// ---- path resolution (always by reference, never by cloning) ----------------

fn resolve_handle(parent: &[Option<HLoc>], loc: HLoc) -> *const LoggedRc {
    match loc {
        HLoc::Root(i) => &w().roots.borrow()[i] as *const LoggedRc,
        HLoc::Slot(o, j) => {
            let n = resolve_node(parent, o);
            let s = n.slots.borrow();
            &s[j] as *const LoggedRc
        }
    }
}

fn resolve_node(parent: &[Option<HLoc>], o: Oid) -> &'static Node {
    let wd = w();
    let is_loose = wd.model.borrow().objs[o as usize].loose;
    let n: &'static Node = if is_loose {
        let l = wd.loose.borrow();
        let b = l.iter().find(|b| b.id.get() == o).expect("loose value not found");
        unsafe { &*(&**b as *const Node) }
    } else {
        let loc = parent[o as usize].expect("no path to object");
        let h = resolve_handle(parent, loc);
        let prev = set_phase(Phase::HeldDeref);
        let n: &Node = unsafe { &(*h).h };
        let ok = n.id.get() == o && n.canary.get() == CANARY ^ o as u64;
        shared().phase = prev;
        if !ok {
            violate(
                View::Premature,
                &format!("dereferencing a held handle to object {} no longer yields the original value (id field {:#x})", o, n.id.get()),
            );
        }
        unsafe { &*(n as *const Node) }
    };
    n
}

fn parents() -> Vec<Option<HLoc>> {
    w().model.borrow().reach().1
}

pub fn node_of(o: Oid) -> &'static Node {
    resolve_node(&parents(), o)
}

/// Some handle instance (by reference) to accessible non-loose object `o`.
fn handle_to(o: Oid) -> Option<*const LoggedRc> {
    let p = parents();
    p[o as usize].map(|loc| resolve_handle(&p, loc))
}

fn handle_at(loc: HLoc) -> *const LoggedRc {
    resolve_handle(&parents(), loc)
}

fn noop() {
    count(ctr::NOOPS, 1);
}

fn alive_mask() -> u64 {
    let m = w().model.borrow();
    let mut mask = 0u64;
    for (i, o) in m.objs.iter().enumerate() {
        if i < 64 && (o.st == St::Alive || o.st == St::Dying) {
            mask |= 1 << i;
        }
    }
    mask
}

/// C14: cloning a handle never traces or allocates.
fn checked_clone(h: &Rc<Node>, t: Oid) -> Rc<Node> {
    let before = (cactusref::__verif::counters()[0], arena::st().n_alloc, arena::st().n_free);
    let prev = arena::set_ctx(CtxKind::Clone, t, 0);
    let c = lib(|| Rc::clone(h));
    arena::restore_ctx(prev);
    let after = (cactusref::__verif::counters()[0], arena::st().n_alloc, arena::st().n_free);
    if w().cfg.cost_checks {
        count(ctr::COST_CHECKS, 1);
        if before != after {
            violate_soft(View::Cost,
                &format!(
                    "cloning a handle to object {} ran {} trace(s), {} allocation(s), {} free(s)",
                    t,
                    after.0 - before.0,
                    after.1 - before.1,
                    after.2 - before.2
                ),
            );
        }
    }
    c
}

fn do_adopt(owner_h: *const LoggedRc, other_h: *const LoggedRc, o: Oid, t: Oid) {
    let prev = arena::set_ctx(CtxKind::Adopt, o, t);
    lib(|| unsafe { Rc::adopt_unchecked(&(*owner_h).h, &(*other_h).h) });
    arena::restore_ctx(prev);
}

fn do_unadopt(a_h: *const LoggedRc, b_h: *const LoggedRc, a: Oid, b: Oid) {
    let prev = arena::set_ctx(CtxKind::Unadopt, a, b);
    lib(|| unsafe { Rc::unadopt(&(*a_h).h, &(*b_h).h) });
    arena::restore_ctx(prev);
}

fn note_record_labels(m: &Model, o: Oid, t: Oid) {
    if o == t {
        label(lab::SELF_CLONE);
    }
    if m.rec(o, t) >= 2 {
        label(lab::PARALLEL);
    }
}

// ---- ops ---------------------------------------------------------------------

pub fn apply_op(op: &Op, top: bool) {
    let wd = w();
    let mode = wd.cfg.mode;
    count(ctr::OPS, 1);
    arena::st().ctx_alive = alive_mask();
    match op {
        Op::New(d) => {
            let id = wd.model.borrow().n();
            if id >= MAX_OBJECTS {
                return noop();
            }
            let id = id as Oid;
            let node = Node::new(id, d.clone());
            let prev = arena::set_ctx(CtxKind::New, id, 0);
            // every way of constructing an Rc (they initialise the allocation
            // header and the link table separately)
            let how = ((wd.layout_lo.get() >> 3) ^ id as u64) % 8;
            let h: Rc<Node> = match how {
                5 => {
                    let b = {
                        let _t = arena::track_off();
                        Box::new(node)
                    };
                    lib(|| Rc::from(b))
                }
                6 => lib(|| Rc::from(node)),
                4 => lib(|| std::pin::Pin::into_inner(Rc::pin(node))),
                3 if wd.cfg.default_ctor > 0 => {
                    // Rc::default(): user code (Default::default) runs inside the
                    // constructor; optionally it panics on the first attempt
                    // (the prepared value is not used: Default::default builds its own;
                    // forgotten, not dropped, since it was never an object)
                    std::mem::forget(node);
                    label(lab::DEFAULT_CTOR);
                    if wd.cfg.default_ctor == 2 && top {
                        crate::world::NODE_STAGE.with(|s| *s.borrow_mut() = Some((id, d.clone(), true)));
                        let r = catch_unwind(AssertUnwindSafe(|| lib(Rc::<Node>::default)));
                        match r {
                            Ok(_) => violate(View::Internal, "staged panic did not fire"),
                            Err(e) => {
                                if !e.is::<Injected>() {
                                    std::panic::resume_unwind(e);
                                }
                                std::mem::forget(e);
                            }
                        }
                    }
                    crate::world::NODE_STAGE.with(|s| *s.borrow_mut() = Some((id, d.clone(), false)));
                    lib(Rc::<Node>::default)
                }
                7 => lib(|| {
                    let mut u = Rc::<Node>::new_uninit();
                    unsafe {
                        Rc::get_mut(&mut u).unwrap().as_mut_ptr().write(node);
                        u.assume_init()
                    }
                }),
                _ => lib(|| Rc::new(node)),
            };
            arena::restore_ctx(prev);
            let addr = Rc::__verif_addr(&h);
            let vaddr = Rc::as_ptr(&h) as usize;
            let got = wd.model.borrow_mut().new_obj(addr, vaddr, !d.is_empty());
            assert_eq!(got, id);
            wd.addr2oid.borrow_mut().push((addr, id));
            wd.model.borrow_mut().roots.push(id);
            wd.roots.borrow_mut().push(LoggedRc::new(h, id));
            count(ctr::OBJECTS, 1);
        }
        Op::NewUninitAdopted { target, loopback } => {
            if mode == Mode::NoAdopt {
                return noop();
            }
            let id = wd.model.borrow().n();
            if id >= MAX_OBJECTS {
                return noop();
            }
            let hs = wd.model.borrow().handles();
            let Some(it) = pick(*target, hs.len()) else { return noop() };
            let (loc_t, t) = hs[it];
            let id = id as Oid;
            let ht = handle_at(loc_t);
            let node = Node::new(id, vec![]);
            // the value already owns a handle to the target
            let c = checked_clone(unsafe { &(*ht).h }, t);
            let lr = LoggedRc::new(c, t);
            lr.owner.set(id);
            node.slots.borrow_mut().push(lr);
            let prev = arena::set_ctx(CtxKind::New, id, 0);
            let mut u: Rc<std::mem::MaybeUninit<Node>> = lib(|| Rc::<Node>::new_uninit());
            arena::restore_ctx(prev);
            lib(|| unsafe { Rc::get_mut(&mut u).unwrap().as_mut_ptr().write(node) });
            // adoption recorded on the still-uninit typed handle; the target's handle
            // is viewed through the same (transparent) type
            {
                let prev = arena::set_ctx(CtxKind::Adopt, id, t);
                let other: &Rc<std::mem::MaybeUninit<Node>> = unsafe { &*(&(*ht).h as *const std::mem::ManuallyDrop<Rc<Node>> as *const Rc<std::mem::MaybeUninit<Node>>) };
                lib(|| unsafe { Rc::adopt_unchecked(&u, other) });
                if *loopback {
                    lib(|| unsafe { Rc::adopt_unchecked(&u, &u) });
                }
                arena::restore_ctx(prev);
            }
            // a Weak taken from the still-uninit handle (half of the cases); it is
            // the same allocation, so it is a Weak to the object once initialised
            let early_weak: Option<Weak<Node>> = if (wd.layout_lo.get() >> 38) & 1 == 1 {
                let prev = arena::set_ctx(CtxKind::Weak, id, 0);
                let wu = lib(|| Rc::downgrade(&u));
                arena::restore_ctx(prev);
                let p = wu.into_raw() as *const Node;
                Some(unsafe { Weak::from_raw(p) })
            } else {
                None
            };
            let h: Rc<Node> = lib(|| unsafe { u.assume_init() });
            let addr = Rc::__verif_addr(&h);
            let vaddr = Rc::as_ptr(&h) as usize;
            {
                let mut m = wd.model.borrow_mut();
                let got = m.new_obj(addr, vaddr, false);
                assert_eq!(got, id);
                if early_weak.is_some() {
                    m.wroots.push(id);
                }
                m.objs[id as usize].slots.push(t);
                m.add_rec(id, t);
                if *loopback {
                    *m.l.entry(id).or_insert(0) += 1;
                }
                m.roots.push(id);
            }
            wd.addr2oid.borrow_mut().push((addr, id));
            wd.roots.borrow_mut().push(LoggedRc::new(h, id));
            if let Some(wk) = early_weak {
                wd.wroots.borrow_mut().push(LoggedWeak::new(wk, id));
                label(lab::WEAK_BEFORE_ASSUME_INIT);
            }
            label(lab::UNINIT_ADOPT);
            count(ctr::OBJECTS, 1);
        }
        Op::CloneH(sel) => {
            let hs = wd.model.borrow().handles();
            let Some(i) = pick(*sel, hs.len()) else { return noop() };
            let (loc, t) = hs[i];
            let hp = handle_at(loc);
            let c = checked_clone(unsafe { &(*hp).h }, t);
            wd.model.borrow_mut().roots.push(t);
            wd.roots.borrow_mut().push(LoggedRc::new(c, t));
        }
        Op::CloneFrom { dst, src } => {
            let n = wd.model.borrow().roots.len();
            let Some(i) = pick(*dst, n) else { return noop() };
            // The overwritten handle is mutably borrowed for the duration of the
            // call: nothing else can name it.  Take it out of the root lists; the
            // clone that replaces it is modelled as an in-flight handle (exists,
            // counts, has no path) until the call returns.
            let mut lr = wd.roots.borrow_mut().remove(i);
            let t_old = wd.model.borrow_mut().roots.remove(i);
            let put_back = |lr: LoggedRc, target: Oid| {
                let mut lr = lr;
                lr.target = target;
                let k = i.min(wd.model.borrow().roots.len());
                wd.model.borrow_mut().roots.insert(k, target);
                wd.roots.borrow_mut().insert(k, lr);
            };
            let hs = wd.model.borrow().handles();
            let Some(j) = pick(*src, hs.len()) else {
                put_back(lr, t_old);
                return noop();
            };
            let (loc, t_src) = hs[j];
            let hp = handle_at(loc);
            label(lab::CLONE_FROM);
            if t_src == t_old {
                label(lab::CLONE_FROM_SAME);
            }
            wd.model.borrow_mut().raws.push(t_src);
            wd.raws.borrow_mut().push(std::ptr::null());
            // reference semantics (`*dst = src.clone()`): the clone exists
            // before the old handle instance is released
            on_hdrop_begin(t_old);
            let prev = arena::set_ctx(CtxKind::Drop, t_old, 0);
            let res = std::panic::catch_unwind(std::panic::AssertUnwindSafe(|| {
                lib(|| Clone::clone_from(&mut *lr.h, unsafe { &*(*hp).h }));
            }));
            let _t = arena::track_off();
            arena::restore_ctx(prev);
            wd.raws.borrow_mut().pop();
            wd.model.borrow_mut().raws.pop();
            // whatever happened, the overwritten binding now holds the clone (an
            // assignment completes on the unwind path too)
            let ok = Rc::as_ptr(&lr.h) as usize == wd.model.borrow().objs[t_src as usize].value_addr;
            put_back(lr, t_src);
            on_hdrop_end(t_old, res.is_err());
            if let Err(e) = res {
                std::panic::resume_unwind(e);
            }
            if !ok {
                violate(View::Mem, &format!("clone_from(&handle to {}) left the overwritten handle pointing somewhere else", t_src));
            }
        }
        Op::DropRoot(sel) => {
            let n = wd.model.borrow().roots.len();
            let Some(i) = pick(*sel, n) else { return noop() };
            let h = wd.roots.borrow_mut().remove(i);
            wd.model.borrow_mut().roots.remove(i);
            if top && *sel & 3 == 3 && (wd.layout_lo.get() >> 24) & 1 == 1 && !exec::inproc() && !std::thread::panicking() {
                // the handle is a local of a frame that unwinds: it is dropped while
                // the thread is panicking (`std::thread::panicking()` is true)
                label(lab::DROP_WHILE_UNWINDING);
                struct Unwind;
                let r = catch_unwind(AssertUnwindSafe(move || {
                    let _held = h;
                    std::panic::panic_any(Unwind);
                }));
                if let Err(e) = r {
                    if !e.is::<Unwind>() {
                        std::panic::resume_unwind(e);
                    }
                }
            } else {
                drop(h);
            }
        }
        Op::DropClosureRoots(sel) => {
            let hs = wd.model.borrow().handles();
            let Some(i) = pick(*sel, hs.len()) else { return noop() };
            let (_, t) = hs[i];
            let members = wd.model.borrow().closure(t);
            loop {
                // roots may change while we drop (destructor scripts): re-scan every time
                let idx = wd.model.borrow().roots.iter().position(|r| members.contains(r));
                let Some(i) = idx else { break };
                let h = wd.roots.borrow_mut().remove(i);
                wd.model.borrow_mut().roots.remove(i);
                drop(h);
                if wd.dact_depth.get() > 3 {
                    break;
                }
            }
        }
        Op::Store { owner, target, adopt } => {
            let hs = wd.model.borrow().handles();
            let (Some(io), Some(it)) = (pick(*owner, hs.len()), pick(*target, hs.len())) else { return noop() };
            let (loc_o, o) = hs[io];
            let (loc_t, t) = hs[it];
            if wd.model.borrow().objs[o as usize].slots.len() >= 40 {
                return noop();
            }
            let adopt = match mode {
                Mode::NoAdopt => 0,
                Mode::Full => {
                    if *adopt == 0 || (*adopt == 1 && loc_o == loc_t) {
                        2
                    } else {
                        *adopt
                    }
                }
                _ => *adopt % 3,
            };
            let p = parents();
            let ho = resolve_handle(&p, loc_o);
            let ht = resolve_handle(&p, loc_t);
            let c = checked_clone(unsafe { &(*ht).h }, t);
            let lr = LoggedRc::new(c, t);
            lr.owner.set(o);
            let mut loopback = false;
            if adopt == 1 {
                do_adopt(ho, ht, o, t);
                loopback = loc_o == loc_t;
            }
            let node = resolve_node(&p, o);
            node.slots.borrow_mut().push(lr);
            {
                let mut m = wd.model.borrow_mut();
                m.objs[o as usize].slots.push(t);
            }
            if adopt == 2 {
                // the owner handle may live in the same Vec (a self slot), so
                // re-resolve after the push
                let p = parents();
                let ho = resolve_handle(&p, loc_o);
                let s = node.slots.borrow();
                let last = s.last().unwrap() as *const LoggedRc;
                do_adopt(ho, last, o, t);
            }
            if adopt != 0 {
                let mut m = wd.model.borrow_mut();
                if loopback {
                    *m.l.entry(o).or_insert(0) += 1;
                    m.objs[o as usize].ever_recorded = true;
                    label(lab::LOOPBACK);
                } else {
                    m.add_rec(o, t);
                    note_record_labels(&m, o, t);
                }
            }
        }
        Op::AdoptSlot { pick: sel, same_instance } => {
            if mode == Mode::NoAdopt {
                return noop();
            }
            // (owner, slot index) pairs with spare capacity
            let mut cands: Vec<(Oid, usize, Oid)> = vec![];
            {
                let m = wd.model.borrow();
                for o in m.accessible() {
                    if m.objs[o as usize].loose {
                        continue;
                    }
                    let slots = &m.objs[o as usize].slots;
                    for (j, &t) in slots.iter().enumerate() {
                        // first instance of each distinct target only
                        if slots[..j].contains(&t) {
                            continue;
                        }
                        let used = m.rec(o, t);
                        if m.held(o, t) > used {
                            cands.push((o, j, t));
                        }
                    }
                }
            }
            let Some(i) = pick(*sel, cands.len()) else { return noop() };
            let (o, j, t) = cands[i];
            let p = parents();
            let node = resolve_node(&p, o);
            let s = node.slots.borrow();
            let slot = &s[j] as *const LoggedRc;
            if *same_instance && t == o {
                do_adopt(slot, slot, o, o);
                let mut m = wd.model.borrow_mut();
                *m.l.entry(o).or_insert(0) += 1;
                m.objs[o as usize].ever_recorded = true;
                label(lab::LOOPBACK);
            } else {
                let ho = resolve_handle(&p, p[o as usize].unwrap());
                do_adopt(ho, slot, o, t);
                let mut m = wd.model.borrow_mut();
                m.add_rec(o, t);
                note_record_labels(&m, o, t);
            }
        }
        Op::LoopbackAdopt(sel) => {
            if mode == Mode::NoAdopt {
                return noop();
            }
            let hs = wd.model.borrow().handles();
            let Some(i) = pick(*sel, hs.len()) else { return noop() };
            let (loc, o) = hs[i];
            let hp = handle_at(loc);
            do_adopt(hp, hp, o, o);
            let mut m = wd.model.borrow_mut();
            *m.l.entry(o).or_insert(0) += 1;
            m.objs[o as usize].ever_recorded = true;
            label(lab::LOOPBACK);
        }
        Op::Unadopt { a, b } => {
            if mode == Mode::NoAdopt {
                return noop();
            }
            let hs = wd.model.borrow().handles();
            let (Some(ia), Some(ib)) = (pick(*a, hs.len()), pick(*b, hs.len())) else { return noop() };
            let (loc_a, oa) = hs[ia];
            let (loc_b, ob) = hs[ib];
            let same = loc_a == loc_b;
            if mode == Mode::Full && !same && wd.model.borrow().rec(oa, ob) > 0 {
                // would leave a stored handle unrecorded
                return noop();
            }
            let p = parents();
            let ha = resolve_handle(&p, loc_a);
            let hb = resolve_handle(&p, loc_b);
            do_unadopt(ha, hb, oa, ob);
            let mut m = wd.model.borrow_mut();
            if same {
                if let Some(c) = m.l.get_mut(&oa) {
                    *c -= 1;
                    if *c == 0 {
                        m.l.remove(&oa);
                    }
                }
            } else {
                let (had, zero) = m.sub_rec(oa, ob);
                if !had {
                    label(lab::UNADOPT_UNMATCHED);
                } else if zero {
                    label(lab::UNADOPT_ZERO);
                }
            }
        }
        Op::Remove { owner, slot, unadopt, keep } => {
            let hs = wd.model.borrow().handles();
            let Some(io) = pick(*owner, hs.len()) else { return noop() };
            let (_loc_o, o) = hs[io];
            let nslots = wd.model.borrow().objs[o as usize].slots.len();
            let Some(j) = pick(*slot, nslots) else { return noop() };
            remove_slot(o, j, *unadopt, *keep);
        }
        Op::StripHandlesTo { target, unadopt, keep } => {
            let hs = wd.model.borrow().handles();
            let Some(it) = pick(*target, hs.len()) else { return noop() };
            let (_, t) = hs[it];
            let mut guard = 0;
            loop {
                // the first stored handle to `t` in any object the program can reach
                let found = {
                    let m = wd.model.borrow();
                    m.accessible().into_iter().find_map(|o| m.objs[o as usize].slots.iter().position(|&x| x == t).map(|j| (o, j)))
                };
                let Some((o, j)) = found else { break };
                remove_slot(o, j, *unadopt, *keep);
                guard += 1;
                if guard > 40 || wd.model.borrow().objs[t as usize].st != St::Alive {
                    break;
                }
            }
            if guard == 0 {
                noop();
            }
        }
        Op::ClearSlots { owner, leave, unadopt, keep } => {
            let o = if *owner >= 0x8000 {
                let m = wd.model.borrow();
                m.accessible().into_iter().filter(|&o| !m.objs[o as usize].loose).max_by_key(|&o| (m.objs[o as usize].slots.len(), u32::MAX - o))
            } else {
                let hs = wd.model.borrow().handles();
                pick(*owner, hs.len()).map(|i| hs[i].1)
            };
            let Some(o) = o else { return noop() };
            let mut guard = 0;
            loop {
                let n = {
                    let m = wd.model.borrow();
                    if m.objs[o as usize].st != St::Alive { 0 } else { m.objs[o as usize].slots.len() }
                };
                if n <= *leave as usize || guard > 48 {
                    break;
                }
                // the object may become inaccessible when its own self handles go
                if !wd.model.borrow().accessible().contains(&o) {
                    break;
                }
                remove_slot(o, n - 1, *unadopt, *keep && guard < 2);
                guard += 1;
            }
            if guard == 0 {
                noop();
            }
        }
        Op::UniqueRoot(sel) => {
            let hs = wd.model.borrow().handles();
            let Some(i) = pick(*sel, hs.len()) else { return noop() };
            let (_, t) = hs[i];
            loop {
                // drop every root of `t` but the first
                let idx = {
                    let m = wd.model.borrow();
                    let mut it = m.roots.iter().enumerate().filter(|(_, &r)| r == t).map(|(k, _)| k);
                    it.next();
                    it.next()
                };
                let Some(k) = idx else { break };
                let h = wd.roots.borrow_mut().remove(k);
                wd.model.borrow_mut().roots.remove(k);
                drop(h);
            }
        }
        Op::Downgrade(sel) => {
            let hs = wd.model.borrow().handles();
            let Some(i) = pick(*sel, hs.len()) else { return noop() };
            let (loc, t) = hs[i];
            let hp = handle_at(loc);
            let prev = arena::set_ctx(CtxKind::Weak, t, 0);
            let wk = lib(|| Rc::downgrade(unsafe { &(*hp).h }));
            arena::restore_ctx(prev);
            wd.model.borrow_mut().wroots.push(t);
            wd.wroots.borrow_mut().push(LoggedWeak::new(wk, t));
        }
        Op::WeakNew => {
            let wk = lib(Weak::new);
            wd.model.borrow_mut().wroots.push(NONE);
            wd.wroots.borrow_mut().push(LoggedWeak::new(wk, NONE));
        }
        Op::CloneWeak(sel) => {
            let n = wd.model.borrow().wroots.len();
            let Some(i) = pick(*sel, n) else { return noop() };
            let (c, t) = {
                let ws = wd.wroots.borrow();
                let prev = set_phase(Phase::WeakCall);
                let c = {
                    let _t = arena::track_on();
                    Weak::clone(&ws[i].w)
                };
                shared().phase = prev;
                (c, ws[i].target)
            };
            wd.model.borrow_mut().wroots.push(t);
            wd.wroots.borrow_mut().push(LoggedWeak::new(c, t));
        }
        Op::WeakCloneFrom { dst, src } => {
            let n = wd.model.borrow().wroots.len();
            let (Some(i), Some(j)) = (pick(*dst, n), pick(*src, n)) else { return noop() };
            if i == j {
                return noop();
            }
            let t = wd.model.borrow().wroots[j];
            {
                let mut ws = wd.wroots.borrow_mut();
                let srcp: *const Weak<Node> = &*ws[j].w;
                let prev = set_phase(Phase::WeakCall);
                {
                    let _t = arena::track_on();
                    let d: &mut Weak<Node> = &mut ws[i].w;
                    d.clone_from(unsafe { &*srcp });
                }
                shared().phase = prev;
                ws[i].target = t;
            }
            wd.model.borrow_mut().wroots[i] = t;
        }
        Op::DropWeak(sel) => {
            let n = wd.model.borrow().wroots.len();
            let Some(i) = pick(*sel, n) else { return noop() };
            let wk = wd.wroots.borrow_mut().remove(i);
            wd.model.borrow_mut().wroots.remove(i);
            drop(wk);
        }
        Op::Upgrade(sel) => {
            let n = wd.model.borrow().wroots.len();
            let Some(i) = pick(*sel, n) else { return noop() };
            let (r, t) = {
                let ws = wd.wroots.borrow();
                let prev = set_phase(Phase::WeakCall);
                let r = {
                    let _t = arena::track_on();
                    ws[i].w.upgrade()
                };
                shared().phase = prev;
                (r, ws[i].target)
            };
            adopt_upgrade_result(r, t);
        }
        Op::StoreWeak { owner, w: wsel } => {
            let hs = wd.model.borrow().handles();
            let nw = wd.model.borrow().wroots.len();
            let (Some(io), Some(iw)) = (pick(*owner, hs.len()), pick(*wsel, nw)) else { return noop() };
            let (_, o) = hs[io];
            if wd.model.borrow().objs[o as usize].wslots.len() >= 16 {
                return noop();
            }
            let (c, t) = {
                let ws = wd.wroots.borrow();
                let prev = set_phase(Phase::WeakCall);
                let c = {
                    let _t = arena::track_on();
                    Weak::clone(&ws[iw].w)
                };
                shared().phase = prev;
                (c, ws[iw].target)
            };
            let lw = LoggedWeak::new(c, t);
            lw.owner.set(o);
            node_of(o).weaks.borrow_mut().push(lw);
            wd.model.borrow_mut().objs[o as usize].wslots.push(t);
            label(lab::WEAK_IN_VALUE);
        }
        Op::RemoveWeak { owner, slot } => {
            let hs = wd.model.borrow().handles();
            let Some(io) = pick(*owner, hs.len()) else { return noop() };
            let (_, o) = hs[io];
            let n = wd.model.borrow().objs[o as usize].wslots.len();
            let Some(j) = pick(*slot, n) else { return noop() };
            let lw = node_of(o).weaks.borrow_mut().remove(j);
            lw.owner.set(NONE);
            wd.model.borrow_mut().objs[o as usize].wslots.remove(j);
            drop(lw);
        }
        Op::Repeat { op, k } => {
            for _ in 0..(*k).min(16) {
                apply_op(op, top);
            }
        }
        Op::Probe => {
            audit(!top);
        }
        Op::TryUnwrap(_) | Op::MakeMut(_) | Op::GetMut(_) | Op::IntoRaw(_) | Op::FromRaw(_) | Op::IncStrong(_) | Op::DecStrong(_) | Op::DropLoose(_) | Op::WeakIntoRaw(_) | Op::WeakFromRaw(_) => {
            if top && (mode == Mode::Consume || mode == Mode::NoAdopt || mode == Mode::Elide || wd.cfg.allow_consume) {
                crate::consume::apply(op);
            } else {
                noop();
            }
        }
    }
}

/// Take stored handle `j` out of the value of object `o`; `unadopt`: call
/// unadopt first (forced where the mode demands it); `keep`: keep it as a
/// root, else drop it.
pub fn remove_slot(o: Oid, j: usize, unadopt: bool, keep: bool) {
    let wd = w();
    let mode = wd.cfg.mode;
    let (t, rec, held, loose) = {
        let m = wd.model.borrow();
        let t = m.objs[o as usize].slots[j];
        (t, m.rec(o, t), m.held(o, t), m.objs[o as usize].loose)
    };
    let cap_after = held - 1;
    let p = parents();
    let node = resolve_node(&p, o);
    let need = rec > cap_after;
    let un = !loose
        && rec > 0
        && match mode {
            Mode::NoAdopt => false,
            Mode::Full => true,
            Mode::Elide => unadopt,
            _ => unadopt || need,
        };
    if un {
        let s = node.slots.borrow();
        let slot_h = &s[j] as *const LoggedRc;
        let ho = resolve_handle(&p, p[o as usize].unwrap());
        do_unadopt(ho, slot_h, o, t);
        let (_, zero) = wd.model.borrow_mut().sub_rec(o, t);
        if zero {
            label(lab::UNADOPT_ZERO);
        }
    } else if need && !loose {
        label(lab::ELIDED);
        if keep {
            label(lab::KEPT_AFTER_ELIDE);
        }
    }
    let h = node.slots.borrow_mut().remove(j);
    h.owner.set(NONE);
    wd.model.borrow_mut().objs[o as usize].slots.remove(j);
    if keep {
        wd.model.borrow_mut().roots.push(t);
        wd.roots.borrow_mut().push(h);
    } else {
        drop(h);
    }
}

/// Judge an upgrade result and, if it is a usable handle, keep it as a root.
pub fn adopt_upgrade_result(r: Option<Rc<Node>>, t: Oid) {
    let wd = w();
    let is_some = r.is_some();
    let ok = on_upgrade(t, is_some);
    if let Some(h) = r {
        if ok {
            let prev = set_phase(Phase::HeldDeref);
            let same = Rc::__verif_addr(&h) == wd.model.borrow().objs[t as usize].addr;
            shared().phase = prev;
            if !same {
                violate(View::Weak, &format!("Weak::upgrade returned a handle to a different allocation than object {}", t));
            }
            wd.model.borrow_mut().roots.push(t);
            wd.roots.borrow_mut().push(LoggedRc::new(h, t));
        } else {
            // undecided until the enclosing teardown finishes: never touch it again
            wd.quarantine.borrow_mut().push(std::mem::ManuallyDrop::new(h));
        }
    }
}

// ---- destructor scripts --------------------------------------------------------

/// The payload's `Clone`, called by `make_mut` on a shared object, re-enters
/// the API: the non-consuming top-level ops of the value's action script.
pub fn run_clone_actions(node: &Node) {
    let wd = w();
    wd.dact_depth.set(wd.dact_depth.get() + 1);
    struct D;
    impl Drop for D {
        fn drop(&mut self) {
            let wd = w();
            wd.dact_depth.set(wd.dact_depth.get() - 1);
        }
    }
    let _d = D;
    for d in node.dscript.iter() {
        if let DAct::Do(op) = d {
            match **op {
                Op::TryUnwrap(_) | Op::MakeMut(_) | Op::GetMut(_) | Op::IntoRaw(_) | Op::FromRaw(_) | Op::IncStrong(_) | Op::DecStrong(_) | Op::DropLoose(_) | Op::WeakIntoRaw(_) | Op::WeakFromRaw(_) | Op::Probe => {}
                _ => {
                    label(lab::CLONE_REENTRANT);
                    apply_op(op, false);
                }
            }
        }
    }
    // Actions aimed at the object being cloned: whatever make_mut looked at
    // before calling Clone (counts, link table) is stale afterwards.
    let x = node.id.get();
    let handle_to = |t: Oid| -> Option<(usize, usize)> {
        let hs = wd.model.borrow().handles();
        hs.iter().position(|&(_, tt)| tt == t).map(|i| (i, hs.len()))
    };
    let drop_roots_of = |t: Oid| {
        for _ in 0..16 {
            let (k, n) = {
                let m = wd.model.borrow();
                (m.roots.iter().position(|&r| r == t), m.roots.len())
            };
            let Some(k) = k else { break };
            apply_op(&Op::DropRoot(sel_for(k, n)), false);
        }
    };
    match (wd.layout_lo.get() >> 19) & 3 {
        1 => {
            // the object joins a ring with a new partner and loses every handle
            // the program holds: when make_mut releases the caller's old handle,
            // that handle is the group's last outside handle
            if wd.model.borrow().n() + 2 < MAX_OBJECTS && handle_to(x).is_some() {
                label(lab::CLONE_REENTRANT);
                label(lab::CLONE_RING_IN);
                apply_op(&Op::New(vec![]), false);
                let y = (wd.model.borrow().n() - 1) as Oid;
                if let (Some((iy, len)), Some((ix, _))) = (handle_to(y), handle_to(x)) {
                    apply_op(&Op::Store { owner: sel_for(iy, len), target: sel_for(ix, len), adopt: 1 }, false);
                }
                if let (Some((iy, len)), Some((ix, _))) = (handle_to(y), handle_to(x)) {
                    apply_op(&Op::Store { owner: sel_for(ix, len), target: sel_for(iy, len), adopt: 2 }, false);
                }
                drop_roots_of(y);
                drop_roots_of(x);
            }
        }
        2 => {
            // every other handle to the object disappears: the caller's old
            // handle is the last one when make_mut releases it
            if let Some((ix, len)) = handle_to(x) {
                label(lab::CLONE_REENTRANT);
                label(lab::CLONE_MAKES_UNIQUE);
                apply_op(&Op::StripHandlesTo { target: sel_for(ix, len), unadopt: true, keep: false }, false);
                drop_roots_of(x);
            }
        }
        _ => {}
    }
}

pub fn run_dacts(node: &mut Node, ds: &[DAct]) {
    let wd = w();
    let id = node.id.get();
    let in_group = {
        let m = wd.model.borrow();
        m.stack.last().map(|b| b.rule != 2 || b.vchildren.len() >= 2).unwrap_or(false)
    };
    wd.dact_depth.set(wd.dact_depth.get() + 1);
    struct D;
    impl Drop for D {
        fn drop(&mut self) {
            let wd = w();
            wd.dact_depth.set(wd.dact_depth.get() - 1);
        }
    }
    let _d = D;
    for d in ds {
        count(ctr::DACTS_RUN, 1);
        if in_group {
            label(lab::DACT_IN_GROUP);
        }
        let before = model_fingerprint();
        match d {
            DAct::Do(op) => match **op {
                Op::TryUnwrap(_) | Op::MakeMut(_) | Op::GetMut(_) | Op::IntoRaw(_) | Op::FromRaw(_) | Op::IncStrong(_) | Op::DecStrong(_) | Op::DropLoose(_) | Op::WeakIntoRaw(_) | Op::WeakFromRaw(_) => {}
                _ => apply_op(op, false),
            },
            DAct::Observe => {
                audit(true);
                // counts reported by the dying value's own Weak handles (to itself,
                // to peers of its group, to outsiders)
                let ws = node.weaks.borrow();
                let m = wd.model.borrow();
                for lw in ws.iter() {
                    audit_weak(&m, lw);
                }
            }
            DAct::UpgradeOwnWeak(k) => {
                let n = node.weaks.borrow().len();
                if let Some(j) = pick(*k, n) {
                    let (r, t) = {
                        let ws = node.weaks.borrow();
                        let prev = set_phase(Phase::WeakCall);
                        let r = {
                            let _t = arena::track_on();
                            ws[j].w.upgrade()
                        };
                        shared().phase = prev;
                        (r, ws[j].target)
                    };
                    adopt_upgrade_result(r, t);
                }
            }
            DAct::DropOwnSlot(k) => {
                let n = node.slots.borrow().len();
                if let Some(j) = pick(*k, n) {
                    let t = node.slots.borrow()[j].target;
                    let outsider = {
                        let m = wd.model.borrow();
                        m.objs[t as usize].st == St::Alive && !m.in_open_obligation(t)
                    };
                    let consuming = matches!(wd.cfg.mode, Mode::Consume | Mode::Elide | Mode::NoAdopt) || wd.cfg.allow_consume;
                    if *k & 1 == 1 && wd.cfg.dtor_unwrap && outsider && consuming {
                        // the destructor gives the handle up through try_unwrap
                        // instead of dropping it: the stored handle becomes a handle
                        // held by the running code, then the ordinary op applies
                        // (Ok: the value is now a loose value; Err: the handle stays)
                        label(lab::DTOR_TRY_UNWRAP);
                        let h = node.slots.borrow_mut().remove(j);
                        let owner = h.owner.get();
                        h.owner.set(NONE);
                        {
                            let mut m = wd.model.borrow_mut();
                            m.remove_slot_instance(owner, t);
                            m.roots.push(t);
                        }
                        wd.roots.borrow_mut().push(h);
                        let nr = wd.roots.borrow().len();
                        crate::consume::apply(&Op::TryUnwrap(sel_for(nr - 1, nr)));
                    } else if (*k & 3 == 2 || (*k & 1 == 0 && shared().enabled_views & View::Abort.bit() != 0)) && wd.cfg.dtor_stash && (outsider || wd.model.borrow().objs[t as usize].st != St::Alive) {
                        // the destructor moves the handle out of its value and hands
                        // it to the program instead of dropping it
                        let h = node.slots.borrow_mut().remove(j);
                        let owner = h.owner.get();
                        h.owner.set(NONE);
                        wd.model.borrow_mut().remove_slot_instance(owner, t);
                        if outsider {
                            // a live outsider: an ordinary handle of the program now
                            wd.model.borrow_mut().roots.push(t);
                            wd.roots.borrow_mut().push(h);
                        } else {
                            // a peer destroyed with it: the handle is dead; the program
                            // drops it once the teardown has finished (C16: no effect)
                            wd.dead_stash.borrow_mut().push(h);
                        }
                    } else {
                        let h = node.slots.borrow_mut().remove(j);
                        // the Drop impl removes the instance from the model by (owner, target)
                        drop(h);
                    }
                }
            }
            DAct::DowngradeOwnSlot(k) => {
                let n = node.slots.borrow().len();
                if let Some(j) = pick(*k, n) {
                    let (wk, t) = {
                        let s = node.slots.borrow();
                        let prev = set_phase(Phase::WeakCall);
                        let wk = {
                            let _t = arena::track_on();
                            Rc::downgrade(&s[j].h)
                        };
                        shared().phase = prev;
                        (wk, s[j].target)
                    };
                    wd.model.borrow_mut().wroots.push(t);
                    wd.wroots.borrow_mut().push(LoggedWeak::new(wk, t));
                }
            }
            DAct::CloneOwnSlot(k) => {
                let n = node.slots.borrow().len();
                if let Some(j) = pick(*k, n) {
                    clone_own_slot(node, j);
                }
            }
            DAct::Panic => {
                if wd.panic_armed.get() && !std::thread::panicking() {
                    wd.panic_armed.set(false);
                    wd.panic_fired.set(true);
                    label(lab::PANIC_INJECTED);
                    count(ctr::PANICS, 1);
                    {
                        let m = wd.model.borrow();
                        if let Some(b) = m.stack.last() {
                            // how many members of this bracket's obligation have not begun yet
                            let remaining = b.obligation.iter().filter(|&&t| m.objs[t as usize].st == St::Alive).count();
                            if b.rule == 1 && remaining > 0 {
                                label(lab::PANIC_NOT_LAST);
                            }
                            if b.rule == 2 {
                                label(if b.had_records { lab::PANIC_RULEB } else { lab::PANIC_PLAIN });
                            }
                        }
                    }
                    let _ = id;
                    std::panic::panic_any(Injected);
                }
            }
        }
        if in_group && before != model_fingerprint() {
            label(lab::DACT_CHANGED_MODEL);
        }
    }
}

fn model_fingerprint() -> (usize, usize, usize, usize) {
    let m = w().model.borrow();
    (
        m.roots.len() + 1000 * m.wroots.len(),
        m.r.values().sum::<usize>(),
        m.objs.iter().filter(|o| o.st == St::Alive).count(),
        m.objs.iter().map(|o| o.slots.len() + 100 * o.wslots.len()).sum(),
    )
}

/// C16: clone a handle stored in the value being destroyed.
fn clone_own_slot(node: &Node, j: usize) {
    let wd = w();
    let (t, st, predicted_dead) = {
        let s = node.slots.borrow();
        let t = s[j].target;
        let m = wd.model.borrow();
        let st = m.objs[t as usize].st;
        let pd = m.stack.iter().any(|b| b.obligation.contains(&t) && !b.vchildren.is_empty());
        (t, st, pd)
    };
    let certain_dead = st != St::Alive;
    if certain_dead || predicted_dead {
        label(lab::DEAD_CLONE);
        label(if st == St::Alive { lab::DEAD_CLONE_ZERO } else { lab::DEAD_CLONE_UNINIT });
        let sh = shared();
        exec::set_msg(&format!("clone of a handle to destroyed object {} (state {:?}) from the destructor of {}", t, st, node.id.get()));
        sh.expect_abort = 1;
    }
    if certain_dead && (wd.layout_lo.get() >> 12) & 1 == 1 && node.slots.borrow().len() >= 2 {
        // the same through `Clone::clone_from`: the handle to the destroyed
        // object is cloned *into* another handle this value owns (preferably one
        // to the same destroyed object)
        label(lab::DEAD_CLONE_FROM);
        let (dst, src): (*mut Rc<Node>, *const Rc<Node>) = {
            let mut s = node.slots.borrow_mut();
            let n = s.len();
            let k = (0..n).find(|&k| k != j && s[k].target == t).unwrap_or((j + 1) % n);
            let src: *const Rc<Node> = &*s[j].h;
            let dst: *mut Rc<Node> = &mut *s[k].h;
            (dst, src)
        };
        exec::set_msg(&format!("clone_from of a handle to destroyed object {} (state {:?}) into another handle owned by the same value, from the destructor of {}", t, st, node.id.get()));
        let r = catch_unwind(AssertUnwindSafe(|| lib(|| unsafe { (*dst).clone_from(&*src) })));
        shared().after_abort = 1;
        if let Err(e) = r {
            std::mem::forget(e);
            violate(View::Abort, &format!("clone_from of a handle to destroyed object {} panicked ({}) instead of terminating the process", t, take_panic_loc()));
        }
        violate(View::Abort, &format!("clone_from of a handle to already destroyed object {} returned normally instead of aborting", t));
    }
    // half of the cases: the stored handle is one that was cloned from the
    // object's `Rc<MaybeUninit<Node>>` handle before `assume_init` (same
    // allocation, payload type without drop glue): cloned through that type
    let via_uninit = (wd.layout_lo.get() >> 39) & 1 == 1;
    let clone_it = move |h: &Rc<Node>| -> Rc<Node> {
        if via_uninit {
            let v: &Rc<std::mem::MaybeUninit<Node>> = unsafe { &*(h as *const Rc<Node> as *const Rc<std::mem::MaybeUninit<Node>>) };
            let c = Rc::clone(v);
            unsafe { c.assume_init() }
        } else {
            Rc::clone(h)
        }
    };
    if via_uninit {
        label(lab::CLONE_VIA_UNINIT_TYPE);
    }
    let c = {
        let s = node.slots.borrow();
        if certain_dead || predicted_dead {
            // the property demands process termination, not an unwinding panic
            match catch_unwind(AssertUnwindSafe(|| lib(|| clone_it(&s[j].h)))) {
                Ok(c) => c,
                Err(e) => {
                    std::mem::forget(e);
                    shared().after_abort = 1;
                    violate(
                        View::Abort,
                        &format!("cloning a handle to destroyed object {} panicked ({}) instead of terminating the process", t, take_panic_loc()),
                    );
                }
            }
        } else {
            lib(|| clone_it(&s[j].h))
        }
    };
    if certain_dead {
        shared().after_abort = 1;
        std::mem::forget(c);
        violate(View::Abort, &format!("cloning a handle to already destroyed object {} returned normally instead of aborting", t));
    }
    if predicted_dead {
        shared().expect_abort = 0;
        // decided when the enclosing teardown finishes
        let mut m = wd.model.borrow_mut();
        if let Some(i) = m.stack.iter().position(|b| b.obligation.contains(&t) && !b.vchildren.is_empty()) {
            m.stack[i].pending_weak.push((t, true));
        }
        wd.quarantine.borrow_mut().push(std::mem::ManuallyDrop::new(c));
        return;
    }
    wd.model.borrow_mut().roots.push(t);
    wd.roots.borrow_mut().push(LoggedRc::new(c, t));
}

// ---- audits --------------------------------------------------------------------

/// Observe everything the program can observe and compare with the model.
/// `mid` = called from inside a destructor (no leak accounting).
pub fn audit(mid: bool) {
    let wd = w();
    count(ctr::AUDITS, 1);
    let (seen, parent) = wd.model.borrow().reach();
    let n = wd.model.borrow().n();
    let after_collect = wd.collected_once.get();
    let mut first_handle: Vec<Option<*const LoggedRc>> = vec![None; n];
    for o in 0..n as Oid {
        let (st, loose) = {
            let m = wd.model.borrow();
            (m.objs[o as usize].st, m.objs[o as usize].loose)
        };
        if st != St::Alive || loose || parent[o as usize].is_none() {
            continue;
        }
        debug_assert!(seen[o as usize]);
        let hp = resolve_handle(&parent, parent[o as usize].unwrap());
        first_handle[o as usize] = Some(hp);
        let _node = resolve_node(&parent, o); // C01: intact value
        let h: &Rc<Node> = unsafe { &(*hp).h };
        let m = wd.model.borrow();
        // C06 counts and identity
        let prev = set_phase(Phase::HeldDeref);
        let (sc, wc, ap) = (Rc::strong_count(h), Rc::weak_count(h), Rc::as_ptr(h) as usize);
        shared().phase = prev;
        let (ms, mw) = (m.strong(o), m.weak(o));
        if m.in_open_obligation(o) {
            continue;
        }
        if sc != ms || wc != mw {
            let msg = format!(
                "object {}: strong_count={} weak_count={} but {} strong and {} Weak handle instances exist",
                o, sc, wc, ms, mw
            );
            violate_soft(View::Count, &msg);
        }
        if ap != m.objs[o as usize].value_addr {
            violate_soft(View::Count, &format!("object {}: as_ptr changed during its life", o));
        }
        if after_collect && m.has_records(o) {
            label(lab::SURVIVOR_USED);
            label(lab::COUNTS_AFTER_COLLECT);
        }
        // C08 link table
        if wd.cfg.audit_tables {
            count(ctr::SNAPSHOTS, 1);
            let snap = Rc::__verif_links(h);
            if let Some(msg) = compare_table(&m, o, &snap) {
                violate_soft(View::Table, &msg);
            }
            if snap.len() >= 2 {
                // order fingerprint, to measure that layouts perturb iteration order (C09)
                let mut fp: u64 = 0;
                for (i, e) in snap.iter().enumerate() {
                    let id = oid_of_addr(e.0).unwrap_or(999) as u64;
                    fp = fp.wrapping_mul(1_000_003).wrapping_add((id * 3 + e.1 as u64) * (i as u64 + 1));
                }
                let c = &mut shared().counters[ctr::ORDER_HASH];
                *c = c.wrapping_mul(31).wrapping_add(fp);
                label(lab::TABLE_ORDER_SEEN);
            }
        }
    }
    // identity across handle instances
    {
        let hs = wd.model.borrow().handles();
        for &(loc, t) in &hs {
            let hp = resolve_handle(&parent, loc);
            let h: &Rc<Node> = unsafe { &(*hp).h };
            if wd.model.borrow().objs[t as usize].st != St::Alive {
                continue;
            }
            if let Some(fh) = first_handle[t as usize] {
                if !Rc::ptr_eq(h, unsafe { &(*fh).h }) {
                    violate_soft(View::Count, &format!("two handles to object {} disagree on ptr_eq", t));
                }
            }
            let other = (0..n).find(|&x| x as Oid != t && first_handle[x].is_some());
            if let Some(x) = other {
                if Rc::ptr_eq(h, unsafe { &(*first_handle[x].unwrap()).h }) {
                    violate_soft(View::Count, &format!("handles to distinct objects {} and {} are ptr_eq", t, x));
                }
            }
        }
    }
    // Weak observations (C05)
    {
        let ws = wd.wroots.borrow();
        let m = wd.model.borrow();
        for lw in ws.iter() {
            audit_weak(&m, lw);
        }
    }
    for o in 0..n as Oid {
        let ok = {
            let m = wd.model.borrow();
            m.objs[o as usize].st == St::Alive && (parent[o as usize].is_some() || m.objs[o as usize].loose) && !m.objs[o as usize].wslots.is_empty()
        };
        if ok {
            let node = resolve_node(&parent, o);
            let ws = node.weaks.borrow();
            let m = wd.model.borrow();
            for lw in ws.iter() {
                audit_weak(&m, lw);
            }
        }
    }
    if !mid && wd.cfg.audit_leaks {
        audit_memory(false);
    }
}

fn audit_weak(m: &Model, lw: &LoggedWeak) {
    let prev = set_phase(Phase::WeakCall);
    let (sc, wc) = (lw.w.strong_count(), lw.w.weak_count());
    shared().phase = prev;
    let t = lw.target;
    if t == NONE {
        if sc != 0 || wc != 0 {
            violate_soft(View::Weak, "Weak::new() reports non-zero counts");
        }
        return;
    }
    let st = m.objs[t as usize].st;
    if st != St::Alive {
        label(lab::WEAK_DEAD_QUERY);
        if sc != 0 || wc != 0 {
            violate_soft(View::Weak,
                &format!("Weak to destroyed object {} reports strong_count={} weak_count={} (must be 0/0)", t, sc, wc),
            );
        }
    } else if !m.in_open_obligation(t) {
        let (ms, mw) = (m.strong(t), m.weak(t));
        if sc != ms || wc != mw {
            violate_soft(View::Weak,
                &format!("Weak to live object {} reports strong_count={} weak_count={}, expected {}/{}", t, sc, wc, ms, mw),
            );
        }
        let ap = lw.w.as_ptr() as usize;
        if ap != m.objs[t as usize].value_addr {
            violate_soft(View::Weak, &format!("Weak::as_ptr of object {} changed", t));
        }
    }
}

/// C08: compare a table snapshot with the ledger.  Returns a description of
/// the first difference.
pub fn compare_table(m: &Model, o: Oid, snap: &[(usize, u8, usize)]) -> Option<String> {
    let mut got: Vec<(u8, Oid, usize)> = vec![];
    for &(addr, kind, cnt) in snap {
        if cnt == 0 {
            continue;
        }
        match oid_of_addr(addr) {
            None => return Some(format!("table of object {} has an entry (kind {}, count {}) naming address {:#x} which is no object", o, kind, cnt, addr)),
            Some(t) => {
                let st = m.objs[t as usize].st;
                if st != St::Alive && !(st == St::Dying && m.stack.iter().any(|b| b.vchildren.contains(&t))) {
                    return Some(format!(
                        "table of object {} still has an entry (kind {}, count {}) naming object {} which is {:?}",
                        o, kind, cnt, t, st
                    ));
                }
                if st != St::Alive {
                    return Some(format!(
                        "table of live object {} still names object {} whose value is being destroyed (kind {}, count {})",
                        o, t, kind, cnt
                    ));
                }
                got.push((kind, t, cnt));
            }
        }
    }
    got.sort();
    let mut want: Vec<(u8, Oid, usize)> = vec![];
    for (&(a, b), &c) in m.r.iter() {
        if c == 0 {
            continue;
        }
        if a == o {
            want.push((0, b, c));
        }
        if b == o {
            want.push((1, a, c));
        }
    }
    let lp = m.l.get(&o).copied().unwrap_or(0);
    // loopback entries are only bounded (DESIGN §5.2)
    let got_lp: usize = got.iter().filter(|e| e.0 == 2).map(|e| e.2).sum();
    if got.iter().any(|e| e.0 == 2 && e.1 != o) {
        return Some(format!("table of object {} has a loopback entry naming another object", o));
    }
    if got_lp > lp || (w().cfg.strict_loopback && got_lp != lp) {
        return Some(format!("table of object {} has loopback count {} but only {} same-handle adoptions are outstanding", o, got_lp, lp));
    }
    got.retain(|e| e.0 != 2);
    want.sort();
    if got != want {
        return Some(format!(
            "table of object {} is {:?} but the calls imply {:?} (kind 0=owner->target, 1=adopted-by; (kind,object,count))",
            o, got, want
        ));
    }
    None
}

/// C04: allocation accounting at a quiescent point.
pub fn audit_memory(final_check: bool) {
    let wd = w();
    let m = wd.model.borrow();
    let gone = |o: Oid| -> bool {
        let st = m.objs[o as usize].st;
        st == St::Dead || st == St::Moved
    };
    let any_panicked = m.objs.iter().any(|o| o.panicked);
    // (a) RcBox released iff destroyed and no Weak remains
    for (o, ob) in m.objs.iter().enumerate() {
        let o = o as Oid;
        let Some(bi) = arena::block_of(ob.addr) else { continue };
        let mut b = arena::blocks()[bi];
        // recycling arena: the allocation has been handed out again to a later
        // object, so it was released
        if oid_of_addr(ob.addr) != Some(o) {
            b.freed = true;
        }
        let should_be_free = gone(o) && m.weak(o) == 0;
        if b.freed && !should_be_free {
            let msg = format!(
                "allocation of object {} was released although {} (state {:?}, {} Weak handles)",
                o,
                if gone(o) { "Weak handles to it remain" } else { "its value has not been destroyed" },
                ob.st,
                m.weak(o)
            );
            violate_soft(View::Leak, &msg);
        }
        if !b.freed && should_be_free && !ob.panicked {
            let msg = format!(
                "object {} was destroyed (path {}) and no Weak handle remains, but its allocation was not released",
                o, ob.death_path
            );
            violate_soft(View::Leak, &msg);
        }
    }
    // (b) bookkeeping storage of destroyed objects
    for (bi, b) in arena::blocks().iter().enumerate() {
        if b.freed || b.kind == CtxKind::New {
            continue;
        }
        let mut parts: Vec<Oid> = vec![];
        if b.kind == CtxKind::Adopt {
            parts.push(b.a);
            parts.push(b.b);
        } else {
            for i in 0..64u32 {
                if b.alive_mask & (1 << i) != 0 && (i as usize) < m.n() {
                    parts.push(i);
                }
            }
            // objects created after the block was allocated cannot own it
        }
        let all_gone = parts.iter().all(|&p| gone(p));
        let exempt = parts.iter().any(|&p| m.objs[p as usize].panicked) || (parts.is_empty() && any_panicked);
        if all_gone && !exempt {
            let msg = format!(
                "{} is still allocated although every object it can belong to ({:?}) has been destroyed",
                exec::describe_block(bi),
                parts
            );
            violate_soft(View::Leak, &msg);
        }
    }
    if final_check {
        let all_gone = (0..m.n() as Oid).all(gone);
        let weaks_left = m.wroots.iter().any(|&t| t != NONE);
        if all_gone && !weaks_left && !any_panicked {
            let live = arena::st().live;
            if live != 0 {
                let which: Vec<String> =
                    arena::blocks().iter().enumerate().filter(|(_, b)| !b.freed).take(4).map(|(i, _)| exec::describe_block(i)).collect();
                violate_soft(View::Leak,
                    &format!("every object destroyed and every Weak dropped, but {} block(s) remain allocated: {}", live, which.join("; ")),
                );
            } else {
                label(lab::CLEANUP_ZERO);
            }
        }
    }
}

// ---- driving a whole script -----------------------------------------------------

thread_local! {
    static PANIC_LOC: std::cell::RefCell<String> = const { std::cell::RefCell::new(String::new()) };
}

pub fn install_panic_hook() {
    std::panic::set_hook(Box::new(|info| {
        let _t = arena::track_off();
        let loc = info.location().map(|l| format!("{}:{}", l.file(), l.line())).unwrap_or_default();
        let msg = if let Some(s) = info.payload().downcast_ref::<&str>() {
            s.to_string()
        } else if let Some(s) = info.payload().downcast_ref::<String>() {
            s.clone()
        } else {
            String::new()
        };
        if std::env::var_os("CX_VERBOSE").is_some() {
            eprintln!("panic: {} @ {}", msg, loc);
        }
        PANIC_LOC.with(|p| *p.borrow_mut() = format!("{} @ {}", msg, loc));
    }));
}

pub fn take_panic_loc() -> String {
    PANIC_LOC.with(|p| std::mem::take(&mut *p.borrow_mut()))
}

/// A panic that escaped the per-op handlers (child side of the fork executor).
pub fn escaped_panic(e: Box<dyn std::any::Any + Send>) -> ! {
    if e.is::<Injected>() {
        std::mem::forget(e);
        violate(View::Internal, "injected panic escaped the interpreter");
    }
    handle_panic(e);
    violate(View::Internal, "unclassified panic")
}

fn handle_panic(e: Box<dyn std::any::Any + Send>) {
    let _t = arena::track_off();
    set_phase(Phase::Harness);
    if e.is::<exec::ViolationPanic>() || e.is::<exec::EndCasePanic>() {
        // in-process mode: a verdict, not a library panic
        std::panic::resume_unwind(e);
    }
    if e.is::<Injected>() {
        // the caller of drop observed the panic: propagation is part of C11
        std::mem::forget(e);
        // brackets interrupted by the unwind were popped by their guards
        if !w().model.borrow().stack.is_empty() {
            violate(View::Internal, "bracket stack not empty after unwinding");
        }
        return;
    }
    let loc = take_panic_loc();
    std::mem::forget(e);
    let file = loc.rsplit(" @ ").next().unwrap_or("");
    if file.starts_with("src/") || loc.contains("harness/src") || loc.contains("cxcheck") {
        violate(View::Internal, &format!("harness panic: {}", loc));
    }
    violate(View::LibPanic, &format!("the library panicked: {}", loc));
}

fn digest_step(op_idx: usize) {
    let wd = w();
    let sh = shared();
    let mut h = sh.digest ^ (op_idx as u64).wrapping_mul(0x9E37_79B9_7F4A_7C15);
    let mut d = wd.destroyed_this_op.borrow().clone();
    d.sort();
    for x in d {
        h = (h ^ (x as u64 + 1)).wrapping_mul(0x1_0000_0001_b3);
    }
    h = h.wrapping_mul(31);
    // every observable count
    let hs = wd.model.borrow().handles();
    let p = parents();
    let mut seen_obj = vec![];
    for &(loc, t) in &hs {
        if seen_obj.contains(&t) {
            continue;
        }
        seen_obj.push(t);
        let hp = resolve_handle(&p, loc);
        let hh: &Rc<Node> = unsafe { &(*hp).h };
        h = (h ^ (t as u64) << 32 ^ (Rc::strong_count(hh) as u64) << 8 ^ Rc::weak_count(hh) as u64).wrapping_mul(0x1_0000_0001_b3);
    }
    for lw in wd.wroots.borrow().iter() {
        h = (h ^ ((lw.w.strong_count() as u64) << 8) ^ lw.w.weak_count() as u64).wrapping_mul(0x1_0000_0001_b3);
    }
    sh.digest = h;
}

pub fn run_script(s: &Script, cfg: Cfg) -> ! {
    run_script_body(s, cfg);
    finish()
}

/// Handles to destroyed peers that destructors handed to the program: dropped
/// now, after the teardown that produced them has returned.
fn drain_dead_stash() {
    let wd = w();
    loop {
        let Some(h) = wd.dead_stash.borrow_mut().pop() else { break };
        // only while a Weak held by the program keeps the allocation of the
        // destroyed object alive: otherwise the allocation is gone with the
        // teardown and the handle dangles (it is forgotten, not dropped)
        if !wd.model.borrow().wroots.contains(&h.target) {
            std::mem::forget(h);
            continue;
        }
        if shared().enabled_views & View::Abort.bit() != 0 && (wd.layout_lo.get() >> 45) & 1 == 1 {
            // C16: the program clones the handle instead, after the collection
            // that destroyed its object has returned: the process has to end
            label(lab::DEAD_CLONE);
            label(lab::DEAD_CLONE_UNINIT);
            let t = h.target;
            exec::set_msg(&format!("clone, after the teardown, of a handle to destroyed object {} that a destructor had moved out of its value", t));
            shared().expect_abort = 1;
            let r = catch_unwind(AssertUnwindSafe(|| lib(|| Rc::clone(&*h.h))));
            shared().after_abort = 1;
            match r {
                Ok(c) => std::mem::forget(c),
                Err(e) => {
                    std::mem::forget(e);
                    violate(View::Abort, &format!("cloning, after the teardown, a handle to destroyed object {} panicked ({}) instead of terminating the process", t, take_panic_loc()));
                }
            }
            violate(View::Abort, &format!("cloning, after the teardown, a handle to already destroyed object {} (kept allocated by a Weak) returned normally instead of aborting", t));
        }
        label(lab::DEAD_HANDLE_DROPPED_LATER);
        exec::set_msg(&format!("drop, after the teardown, of a handle to destroyed object {} that a destructor had moved out of its value", h.target));
        if let Err(e) = catch_unwind(AssertUnwindSafe(move || drop(h))) {
            handle_panic(e);
        }
    }
}

/// Interpret the whole script; returns normally when no view failed.
pub fn run_script_body(s: &Script, cfg: Cfg) {
    arena::seed_layout(s.arena_seed.unwrap_or(s.layout_seed), true);
    // a quarter of the cases: object allocations are recycled like a real allocator does
    arena::st().recycle = (s.layout_seed >> 36) & 3 == 0;
    arena::st().n_recycled = 0;
    let digest = cfg.digest;
    let leaks = cfg.audit_leaks;
    install_world(cfg);
    w().layout_lo.set(s.layout_seed);
    install_panic_hook();
    cactusref::__verif::reset();
    let wd = w();
    // allocation-failure injection (one case in eight): the k-th allocation the
    // library makes fails once; the process may end there (abort on OOM is the
    // standard reaction) or the library may cope, in which case everything is
    // judged as usual
    // (not for C09: how many allocations a hash table makes can depend on the
    // addresses it hashes, so "the k-th allocation" is not the same call under
    // two heap layouts)
    arena::st().fail_in = if (s.layout_seed >> 28) & 7 == 0 && !exec::inproc() && !digest && std::env::var_os("CX_NO_OOM").is_none() { 1 + (s.layout_seed >> 32) % 96 } else { 0 };
    for (i, op) in s.ops.iter().enumerate() {
        shared().op = i as u32;
        arena::st().ctx_op = i as u32;
        drain_dead_stash();
        if arena::st().fail_fired {
            // the call during which the allocation failed has returned
            arena::st().fail_fired = false;
            shared().expect_abort = 0;
            label(lab::ALLOC_FAILURE_SURVIVED);
        }
        wd.panic_armed.set(true);
        wd.destroyed_this_op.borrow_mut().clear();
        wd.panic_fired.set(false);
        let r = catch_unwind(AssertUnwindSafe(|| apply_op(op, true)));
        match r {
            Err(e) => handle_panic(e),
            Ok(()) => {
                if wd.panic_fired.get() {
                    violate(View::PanicSafe, "a value's destructor panicked during this operation but the panic did not propagate to the caller");
                }
            }
        }
        if cactusref::__verif::counters()[5] != 0 {
            violate(View::Mem, "the library read the link table of an allocation whose contents had been moved out (stale access)");
        }
        let r = catch_unwind(AssertUnwindSafe(|| audit(false)));
        if let Err(e) = r {
            handle_panic(e);
        }
        if digest {
            digest_step(i);
        }
    }
    if arena::st().fail_fired {
        arena::st().fail_fired = false;
        shared().expect_abort = 0;
        label(lab::ALLOC_FAILURE_SURVIVED);
    }
    // the cleanup phase runs without injection
    arena::st().fail_in = 0;
    drain_dead_stash();
    if !s.cleanup.is_empty() {
        let base = s.ops.len();
        let mut k = 0usize;
        // raw pointers and loose values first
        shared().op = base as u32;
        let r = catch_unwind(AssertUnwindSafe(crate::consume::cleanup));
        if let Err(e) = r {
            handle_panic(e);
        }
        loop {
            let (nr, nw) = (wd.model.borrow().roots.len(), wd.model.borrow().wroots.len());
            if nr + nw == 0 {
                break;
            }
            let sel = s.cleanup[k % s.cleanup.len()];
            shared().op = (base + k) as u32;
            arena::st().ctx_op = (base + k) as u32;
            arena::st().ctx_alive = alive_mask();
            wd.panic_armed.set(true);
            wd.destroyed_this_op.borrow_mut().clear();
            k += 1;
            let i = pick(sel, nr + nw).unwrap();
            let r = catch_unwind(AssertUnwindSafe(|| {
                if i < nr {
                    let h = wd.roots.borrow_mut().remove(i);
                    wd.model.borrow_mut().roots.remove(i);
                    drop(h);
                } else {
                    let wk = wd.wroots.borrow_mut().remove(i - nr);
                    wd.model.borrow_mut().wroots.remove(i - nr);
                    drop(wk);
                }
            }));
            if let Err(e) = r {
                handle_panic(e);
            }
            if cactusref::__verif::counters()[5] != 0 {
                violate(View::Mem, "the library read the link table of an allocation whose contents had been moved out (stale access)");
            }
            let r = catch_unwind(AssertUnwindSafe(|| audit(false)));
            if let Err(e) = r {
                handle_panic(e);
            }
            if digest {
                digest_step(base + k);
            }
        }
        if leaks {
            let r = catch_unwind(AssertUnwindSafe(|| audit_memory(true)));
            if let Err(e) = r {
                handle_panic(e);
            }
        }
    }
}

pub fn finish() -> ! {
    let wd = w();
    let sh = shared();
    if arena::st().n_reused > 0 {
        label(lab::ADDRESS_REUSED);
    }
    sh.labels = wd.labels.get();
    sh.counters[ctr::ARENA_BLOCKS] = arena::st().nblocks as u64;
    sh.counters[ctr::TRACE_CALLS] = cactusref::__verif::counters()[0] as u64;
    // two different teardown paths in one case
    let m = wd.model.borrow();
    let mut paths = [false; 4];
    for o in &m.objs {
        paths[o.death_path as usize] = true;
    }
    if paths[1..].iter().filter(|&&x| x).count() >= 2 {
        sh.labels |= 1u64 << lab::MULTI_PATH;
    }
    exec::end_pass()
}
