//! Handle-consuming APIs on linked objects (C12).  Filled in later.
use crate::script::Op;
pub fn apply(_op: &Op) {
    crate::world::count(crate::world::ctr::NOOPS, 1);
}
pub fn cleanup() {}
