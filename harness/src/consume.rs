//! Handle-consuming APIs on objects that take part in adoptions (C12, and the
//! no-adoption part of C14's domain).

use crate::arena::{self, CtxKind};
use crate::exec::{violate, View};
use crate::model::*;
use crate::script::*;
use crate::world::*;
use cactusref::Rc;
use std::mem::ManuallyDrop;

fn noop() {
    count(ctr::NOOPS, 1);
}

fn take_rc(h: LoggedRc) -> Rc<Node> {
    let h = ManuallyDrop::new(h);
    unsafe { std::ptr::read(&*h.h) }
}

/// The value of `old` now lives somewhere else (loose, or in a new
/// allocation): rename it to a fresh object id and give up the old one.
fn move_value(old: Oid, loose: bool, addr: usize, vaddr: usize) -> Oid {
    let wd = w();
    let mut m = wd.model.borrow_mut();
    let hd = m.objs[old as usize].has_dscript;
    let new = m.new_obj(addr, vaddr, hd);
    let slots = std::mem::take(&mut m.objs[old as usize].slots);
    let wslots = std::mem::take(&mut m.objs[old as usize].wslots);
    m.objs[new as usize].slots = slots;
    m.objs[new as usize].wslots = wslots;
    m.objs[new as usize].loose = loose;
    m.objs[old as usize].st = St::Moved;
    // records involving the given-up allocation disappear (not transferred)
    m.purge(old);
    new
}

pub fn apply(op: &Op) {
    let wd = w();
    match op {
        Op::TryUnwrap(sel) => {
            let n = wd.model.borrow().roots.len();
            let Some(i) = pick(*sel, n) else { return noop() };
            let t = wd.model.borrow().roots[i];
            let h = wd.roots.borrow_mut().remove(i);
            wd.model.borrow_mut().roots.remove(i);
            let (expect_ok, had_rec) = {
                let m = wd.model.borrow();
                (m.strong(t) == 0, m.has_records(t))
            };
            let rc = take_rc(h);
            let prev = arena::set_ctx(CtxKind::Consume, t, 0);
            let r = lib(|| Rc::try_unwrap(rc));
            arena::restore_ctx(prev);
            match r {
                Ok(node) => {
                    if !expect_ok {
                        std::mem::forget(node);
                        violate(View::Consume, &format!("try_unwrap succeeded on object {} although other strong handles exist", t));
                    }
                    if wd.model.borrow().objs[t as usize].st != St::Alive {
                        std::mem::forget(node);
                        violate(View::Consume, &format!("try_unwrap ran the destructor of the value it returned (object {})", t));
                    }
                    if node.id.get() != t || node.canary.get() != CANARY ^ t as u64 {
                        std::mem::forget(node);
                        violate(View::Consume, &format!("try_unwrap returned a corrupted value for object {}", t));
                    }
                    if had_rec {
                        label(lab::CONSUME_LINKED);
                    }
                    let new = move_value(t, true, 0, 0);
                    node.rename(new);
                    wd.loose.borrow_mut().push(Box::new(node));
                }
                Err(rc) => {
                    if expect_ok {
                        violate(View::Consume, &format!("try_unwrap failed on the sole strong handle of object {}", t));
                    }
                    if Rc::__verif_addr(&rc) != wd.model.borrow().objs[t as usize].addr {
                        violate(View::Consume, "try_unwrap returned a different handle in Err");
                    }
                    wd.model.borrow_mut().roots.push(t);
                    wd.roots.borrow_mut().push(LoggedRc::new(rc, t));
                }
            }
        }
        Op::MakeMut(sel) => {
            if *sel & 1 == 1 && wd.cfg.slot_consume {
                // any handle instance, also one stored inside a value
                let hs = wd.model.borrow().handles();
                let Some(k) = pick(*sel, hs.len()) else { return noop() };
                match hs[k].0 {
                    HLoc::Root(i) => make_mut_root(i),
                    HLoc::Slot(o, j) => make_mut_slot(o, j),
                }
            } else {
                let n = wd.model.borrow().roots.len();
                let Some(i) = pick(*sel, n) else { return noop() };
                make_mut_root(i);
            }
        }
        Op::GetMut(sel) => {
            let n = wd.model.borrow().roots.len();
            let Some(i) = pick(*sel, n) else { return noop() };
            let t = wd.model.borrow().roots[i];
            let (strong, weak, had_rec) = {
                let m = wd.model.borrow();
                (m.strong(t), m.weak(t), m.has_records(t))
            };
            let mut roots = wd.roots.borrow_mut();
            let lr: &mut LoggedRc = &mut roots[i];
            let r = lib(|| Rc::get_mut(&mut *lr.h).map(|n| n.id.get()));
            let expect = strong == 1 && weak == 0;
            if r.is_some() != expect {
                violate(View::Consume, &format!("get_mut on object {} returned {:?} with {} strong / {} Weak handles", t, r, strong, weak));
            }
            if let Some(id) = r {
                if id != t {
                    violate(View::Consume, "get_mut returned the wrong value");
                }
                if had_rec {
                    label(lab::CONSUME_LINKED);
                }
            }
            // no reference into the value is alive here
            let id2 = lib(|| unsafe { Rc::get_mut_unchecked(&mut *lr.h).id.get() });
            if id2 != t {
                violate(View::Consume, "get_mut_unchecked returned the wrong value");
            }
        }
        Op::IntoRaw(sel) => {
            let n = wd.model.borrow().roots.len();
            let Some(i) = pick(*sel, n) else { return noop() };
            let t = wd.model.borrow().roots[i];
            let h = wd.roots.borrow_mut().remove(i);
            wd.model.borrow_mut().roots.remove(i);
            let rc = take_rc(h);
            let p = lib(|| Rc::into_raw(rc));
            if p as usize != wd.model.borrow().objs[t as usize].value_addr {
                violate(View::Consume, "into_raw returned a pointer different from as_ptr");
            }
            if wd.model.borrow().has_records(t) {
                label(lab::CONSUME_LINKED);
            }
            wd.raws.borrow_mut().push(p);
            wd.model.borrow_mut().raws.push(t);
        }
        Op::FromRaw(sel) => {
            let n = wd.model.borrow().raws.len();
            let Some(i) = pick(*sel, n) else { return noop() };
            let p = wd.raws.borrow_mut().remove(i);
            let t = wd.model.borrow_mut().raws.remove(i);
            let rc = lib(|| unsafe { Rc::from_raw(p) });
            wd.model.borrow_mut().roots.push(t);
            wd.roots.borrow_mut().push(LoggedRc::new(rc, t));
        }
        Op::IncStrong(sel) => {
            let n = wd.model.borrow().raws.len();
            let Some(i) = pick(*sel, n) else { return noop() };
            let p = wd.raws.borrow()[i];
            let t = wd.model.borrow().raws[i];
            lib(|| unsafe { Rc::increment_strong_count(p) });
            wd.raws.borrow_mut().push(p);
            wd.model.borrow_mut().raws.push(t);
        }
        Op::DecStrong(sel) => {
            let n = wd.model.borrow().raws.len();
            let Some(i) = pick(*sel, n) else { return noop() };
            let p = wd.raws.borrow_mut().remove(i);
            let t = wd.model.borrow_mut().raws.remove(i);
            // decrement_strong_count is a drop of a handle: same bracket as any other drop
            on_hdrop_begin(t);
            struct G(Oid);
            impl Drop for G {
                fn drop(&mut self) {
                    let _t = arena::track_off();
                    on_hdrop_end(self.0, std::thread::panicking());
                }
            }
            let _g = G(t);
            let prev = arena::set_ctx(CtxKind::Drop, t, 0);
            lib(|| unsafe { Rc::decrement_strong_count(p) });
            arena::restore_ctx(prev);
        }
        Op::WeakIntoRaw(sel) => {
            let n = wd.model.borrow().wroots.len();
            let Some(i) = pick(*sel, n) else { return noop() };
            let lw = wd.wroots.borrow_mut().remove(i);
            let t = wd.model.borrow_mut().wroots.remove(i);
            let lw = ManuallyDrop::new(lw);
            let wk: cactusref::Weak<Node> = unsafe { std::ptr::read(&*lw.w) };
            let prev = set_phase(crate::exec::Phase::WeakCall);
            let ap = wk.as_ptr();
            let p = lib(|| wk.into_raw());
            crate::exec::shared().phase = prev;
            if p != ap {
                crate::exec::violate_soft(View::Weak, "Weak::into_raw returned a pointer different from Weak::as_ptr");
            }
            if t != NONE && p as usize != wd.model.borrow().objs[t as usize].value_addr {
                crate::exec::violate_soft(View::Weak, &format!("Weak::into_raw of a Weak to object {} does not point at its value", t));
            }
            wd.wraws.borrow_mut().push(p);
            wd.model.borrow_mut().wraws.push(t);
        }
        Op::WeakFromRaw(sel) => {
            let n = wd.model.borrow().wraws.len();
            let Some(i) = pick(*sel, n) else { return noop() };
            let p = wd.wraws.borrow_mut().remove(i);
            let t = wd.model.borrow_mut().wraws.remove(i);
            let prev = set_phase(crate::exec::Phase::WeakCall);
            let wk = lib(|| unsafe { cactusref::Weak::from_raw(p) });
            crate::exec::shared().phase = prev;
            wd.model.borrow_mut().wroots.push(t);
            wd.wroots.borrow_mut().push(LoggedWeak::new(wk, t));
        }
        Op::DropLoose(sel) => {
            let n = wd.loose.borrow().len();
            let Some(i) = pick(*sel, n) else { return noop() };
            let b = wd.loose.borrow_mut().remove(i);
            let id = b.id.get();
            // the program gives the value up
            wd.model.borrow_mut().objs[id as usize].loose = false;
            drop(b);
        }
        _ => noop(),
    }
}

/// Before the generated cleanup order: rebuild handles from raw pointers (they
/// are then dropped like any root) and drop loose values.
pub fn cleanup() {
    let wd = w();
    loop {
        let Some(p) = wd.raws.borrow_mut().pop() else { break };
        let t = wd.model.borrow_mut().raws.pop().unwrap();
        let rc = lib(|| unsafe { Rc::from_raw(p) });
        wd.model.borrow_mut().roots.push(t);
        wd.roots.borrow_mut().push(LoggedRc::new(rc, t));
    }
    loop {
        let Some(p) = wd.wraws.borrow_mut().pop() else { break };
        let t = wd.model.borrow_mut().wraws.pop().unwrap();
        let wk = lib(|| unsafe { cactusref::Weak::from_raw(p) });
        wd.model.borrow_mut().wroots.push(t);
        wd.wroots.borrow_mut().push(LoggedWeak::new(wk, t));
    }
    loop {
        let Some(b) = wd.loose.borrow_mut().pop() else { break };
        let id = b.id.get();
        wd.model.borrow_mut().objs[id as usize].loose = false;
        drop(b);
    }
}

/// `Rc::make_mut` on root `i`.
fn make_mut_root(i: usize) {
    let wd = w();
        let t = wd.model.borrow().roots[i];
        let (strong, weak, had_rec, next) = {
            let m = wd.model.borrow();
            (m.strong(t), m.weak(t), m.has_records(t), m.n() as Oid)
        };
        if next as usize >= crate::interp::MAX_OBJECTS {
            return noop();
        }
        let shared_branch = strong != 1;
        let move_branch = strong == 1 && weak != 0;
        wd.makemut_new.set(NONE);
        if shared_branch {
            wd.makemut.set(Some((i, t)));
        }
        // the RcBox allocated by make_mut belongs to the next object id
        let prev = arena::set_ctx(if shared_branch || move_branch { CtxKind::New } else { CtxKind::Consume }, next, 0);
        // The handle is mutably borrowed by make_mut for the duration of the
        // call: nothing else (destructor scripts!) can name it.  Model it as an
        // in-flight handle (like a raw pointer: it exists, it is reachable, it
        // has no path) and take it out of the root lists.
        let mut lr = wd.roots.borrow_mut().remove(i);
        {
            let mut m = wd.model.borrow_mut();
            m.roots.remove(i);
            m.raws.push(t);
        }
        wd.raws.borrow_mut().push(std::ptr::null());
        let res = std::panic::catch_unwind(std::panic::AssertUnwindSafe(|| {
            let r: &mut Node = lib(|| Rc::make_mut(&mut *lr.h));
            let id_seen = r.id.get();
            if move_branch {
                // rename the moved value in place through the &mut we were given
                r.rename(next);
            }
            id_seen
        }));
        let _t = arena::track_off();
        arena::restore_ctx(prev);
        wd.makemut.set(None);
        wd.raws.borrow_mut().pop();
        wd.model.borrow_mut().raws.pop();
        let (new_addr, new_vaddr) = (Rc::__verif_addr(&lr.h), Rc::as_ptr(&lr.h) as usize);
        let old_addr = wd.model.borrow().objs[t as usize].addr;
        let put_back = |lr: LoggedRc, target: Oid| {
            let mut lr = lr;
            lr.target = target;
            let k = i.min(wd.model.borrow().roots.len());
            wd.model.borrow_mut().roots.insert(k, target);
            wd.roots.borrow_mut().insert(k, lr);
        };
        let id_seen = match res {
            Ok(id) => id,
            Err(e) => {
                // a destructor panicked inside make_mut: only possible while the
                // clone branch drops the caller's old handle.  The caller's handle
                // must now be the fresh clone (C11: nothing the program holds is
                // corrupted); put it back and let the panic reach the op handler.
                let new = wd.makemut_new.get();
                if shared_branch && new != NONE {
                    on_hdrop_end(t, true);
                    {
                        let mut m = wd.model.borrow_mut();
                        m.objs[new as usize].addr = new_addr;
                        m.objs[new as usize].value_addr = new_vaddr;
                    }
                    wd.addr2oid.borrow_mut().push((new_addr, new));
                    count(ctr::OBJECTS, 1);
                    put_back(lr, new);
                } else {
                    put_back(lr, t);
                }
                std::panic::resume_unwind(e);
            }
        };
        if shared_branch {
            let new = wd.makemut_new.get();
            if new == NONE || new_addr == old_addr {
                put_back(lr, t);
                violate(View::Consume, &format!("make_mut on shared object {} did not clone the value into a new allocation", t));
            }
            // close the bracket of the implicit drop of the old handle
            on_hdrop_end(t, false);
            {
                let mut m = wd.model.borrow_mut();
                m.objs[new as usize].addr = new_addr;
                m.objs[new as usize].value_addr = new_vaddr;
            }
            wd.addr2oid.borrow_mut().push((new_addr, new));
            put_back(lr, new);
            if id_seen != new {
                violate(View::Consume, "make_mut returned a reference to the wrong value");
            }
            count(ctr::OBJECTS, 1);
        } else if move_branch {
            if new_addr == old_addr {
                put_back(lr, t);
                violate(View::Consume, &format!("make_mut on sole owner {} with Weak handles did not disassociate them", t));
            }
            if id_seen != t {
                violate(View::Consume, "make_mut moved the wrong value");
            }
            if wd.model.borrow().objs[t as usize].st != St::Alive {
                violate(View::Consume, &format!("make_mut ran the destructor of the value it moved (object {})", t));
            }
            if had_rec {
                label(lab::CONSUME_LINKED);
            }
            let new = move_value(t, false, new_addr, new_vaddr);
            assert_eq!(new, next);
            wd.addr2oid.borrow_mut().push((new_addr, new));
            put_back(lr, new);
            count(ctr::OBJECTS, 1);
        } else {
            put_back(lr, t);
            if new_addr != old_addr || id_seen != t {
                violate(View::Consume, &format!("make_mut on unique object {} changed its allocation", t));
            }
            if had_rec {
                label(lab::CONSUME_LINKED);
            }
        }
}

/// `Rc::make_mut` in place on handle `j` stored in the value of object `o`: for
/// the duration of the call the handle is held like a root (moving a handle
/// changes nothing for the library); afterwards it goes back into its slot,
/// pointing at whatever allocation make_mut left it with.
fn make_mut_slot(o: Oid, j: usize) {
    let wd = w();
    let owner_node: &'static Node = crate::interp::node_of(o);
    let t = wd.model.borrow().objs[o as usize].slots[j];
    if wd.model.borrow().strong(t) > 1 {
        // clone branch: the stored handle will point to a different object
        // afterwards, which is a removal of the old handle as far as the
        // owner's records are concerned: same rules as any removal (unadopt
        // first where the discipline of the mode demands it)
        crate::interp::remove_slot(o, j, false, true);
    } else {
        // in place or moved to a new allocation (the library purges the records
        // of the allocation it gives up)
        let node = crate::interp::node_of(o);
        let lr = node.slots.borrow_mut().remove(j);
        lr.owner.set(NONE);
        wd.model.borrow_mut().objs[o as usize].slots.remove(j);
        wd.model.borrow_mut().roots.push(t);
        wd.roots.borrow_mut().push(lr);
    }
    let i = wd.roots.borrow().len() - 1;
    label(lab::MAKEMUT_STORED);
    struct Back(Oid, usize, usize, &'static Node);
    impl Drop for Back {
        fn drop(&mut self) {
            // also on the unwind path (a destructor panicked inside make_mut)
            let wd = w();
            let (o, j, i, node) = (self.0, self.1, self.2, self.3);
            let n = wd.roots.borrow().len();
            if n == 0 || wd.model.borrow().objs[o as usize].st != St::Alive {
                return;
            }
            let k = i.min(n - 1);
            let lr = wd.roots.borrow_mut().remove(k);
            let t2 = wd.model.borrow_mut().roots.remove(k);
            lr.owner.set(o);
            let pos = j.min(node.slots.borrow().len());
            node.slots.borrow_mut().insert(pos, lr);
            wd.model.borrow_mut().objs[o as usize].slots.insert(pos, t2);
        }
    }
    let _back = Back(o, j, i, owner_node);
    make_mut_root(i);
}
