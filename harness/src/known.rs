//! Known findings (DESIGN §3.9): predicates over the model evaluated
//! immediately before a strong-handle drop.  A match ends the case (the drop is
//! not executed) and the case is counted as excluded.

use crate::model::*;

pub const KF_C13_ELIDE: u32 = 1;

/// D4 signature: the documented algorithm, run on the ledger, condemns a group
/// G although some member of G has a strong handle instance that is not owned
/// by a member of G.  Under `recorded <= held` the two conditions contradict
/// each other, so this can only fire through a stale record (elided unadopt).
/// Called after the handle being dropped has been removed from the model.
pub fn predicate_before_drop(m: &Model, x: Oid) -> Option<String> {
    if m.strong(x) == 0 {
        return None;
    }
    let g = m.documented_condemns(x)?;
    for &k in &g {
        let inside: usize = g.iter().map(|&v| m.held(v, k)).sum();
        if m.strong(k) > inside {
            let stale: Vec<(Oid, Oid, usize, usize)> = m
                .r
                .iter()
                .filter(|(&(a, b), &c)| c > m.held(a, b))
                .map(|(&(a, b), &c)| (a, b, c, m.held(a, b)))
                .collect();
            return Some(format!(
                "elided unadopt: dropping a handle to {} makes the documented algorithm condemn group {:?} although member {} has {} handle(s) of which only {} are owned by members; stale records (owner,target,recorded,held)={:?}",
                x,
                g,
                k,
                m.strong(k),
                inside,
                stale
            ));
        }
    }
    None
}
