#![allow(dead_code)]
//! cxcheck: property-based testing / fuzzing harness for cactusref.
//!
//!   cxcheck run <PROP> [--tier quick|thorough]       launcher (16 workers)
//!   cxcheck worker ...                               one single-threaded worker
//!   cxcheck replay <PROP> <file> [--verbose]         re-run one saved script
//!
//! Exit codes: 0 property held on everything explored, 1 violation
//! (`VIOLATION property=<id> replay=<path>`), 2 could not decide.

use cxcheck::{arena, runner};

#[global_allocator]
static GLOBAL: arena::CheckingAlloc = arena::CheckingAlloc;

fn main() {
    // Reproducibility: run without address-space randomisation, so that cases
    // served by the system allocator (large-scale cases) see the same addresses
    // - hence the same table iteration orders - in every process
    #[cfg(target_os = "linux")]
    unsafe {
        if std::env::var_os("CX_NOASLR").is_none() {
            const ADDR_NO_RANDOMIZE: libc::c_ulong = 0x0040000;
            let cur = libc::personality(0xffff_ffff);
            if cur != -1 && libc::personality(cur as libc::c_ulong | ADDR_NO_RANDOMIZE) != -1 {
                use std::os::unix::process::CommandExt;
                let exe = std::env::current_exe().unwrap();
                let err = std::process::Command::new(exe).args(std::env::args().skip(1)).env("CX_NOASLR", "1").exec();
                eprintln!("cxcheck: re-exec failed: {}", err);
            }
        }
    }
    let args: Vec<String> = std::env::args().collect();
    if args.len() < 2 {
        eprintln!("usage: cxcheck run|worker|replay ...");
        std::process::exit(2);
    }
    let code = match args[1].as_str() {
        "run" => runner::launcher(&args[2..]),
        "worker" => runner::worker(&args[2..]),
        "replay" => runner::replay_cmd(&args[2..]),
        "sweepworker" => runner::sweep_worker(&args[2..]),
        "typesworker" => runner::worker_k::<cxcheck::ext::TypesKind>(&args[2..]),
        "bigworker" => runner::worker_k::<cxcheck::big::BigKind>(&args[2..]),
        "fuzzjudge" => cxcheck::fuzz::judge_cmd(&args[2..]),
        "scaleprobe" => cxcheck::c15::scaleprobe_cmd(&args[2..]),
        _ => {
            eprintln!("unknown command {}", args[1]);
            2
        }
    };
    std::process::exit(code);
}
