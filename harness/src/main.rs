#![allow(dead_code)]
//! cxcheck: property-based testing / fuzzing harness for cactusref.
//!
//!   cxcheck run <PROP> [--tier quick|thorough]       launcher (16 workers)
//!   cxcheck worker ...                               one single-threaded worker
//!   cxcheck replay <PROP> <file> [--verbose]         re-run one saved script
//!
//! Exit codes: 0 property held on everything explored, 1 violation
//! (`VIOLATION property=<id> replay=<path>`), 2 could not decide.

use cxcheck::{arena, runner};

#[global_allocator]
static GLOBAL: arena::CheckingAlloc = arena::CheckingAlloc;

fn main() {
    let args: Vec<String> = std::env::args().collect();
    if args.len() < 2 {
        eprintln!("usage: cxcheck run|worker|replay ...");
        std::process::exit(2);
    }
    let code = match args[1].as_str() {
        "run" => runner::launcher(&args[2..]),
        "worker" => runner::worker(&args[2..]),
        "replay" => runner::replay_cmd(&args[2..]),
        "sweepworker" => runner::sweep_worker(&args[2..]),
        "bigworker" => runner::worker_k::<cxcheck::big::BigKind>(&args[2..]),
        "fuzzjudge" => cxcheck::fuzz::judge_cmd(&args[2..]),
        "scaleprobe" => cxcheck::c15::scaleprobe_cmd(&args[2..]),
        _ => {
            eprintln!("unknown command {}", args[1]);
            2
        }
    };
    std::process::exit(code);
}
