//! Payload-type matrix (DESIGN §10.11).  The script interpreter runs every
//! history on one payload type (`Node`: 32-byte aligned, drop glue, a few
//! hundred bytes).  Code paths that depend on the payload *type* -- its size
//! (zero, not a multiple of 8, larger than a page), its alignment, whether it
//! has drop glue -- are exercised here: a second, smaller interpreter, generic
//! over the payload, runs generated histories on `Rc<T>` for a list of types.
//!
//! Because a zero-sized value cannot hold anything, ownership is external: the
//! handles an object "owns" are kept by the harness in raw form (`into_raw`)
//! in a side table and are released by the harness once the owner is observed
//! dead (what the owner's destructor would do).  The judge is the same
//! reference model (`model::Model`): rule B (last handle gone) and rule A (the
//! recorded closure is orphaned) say exactly which objects a release must
//! destroy; observations are Weak probes, a destructor counter for the types
//! that have a destructor, link-table snapshots, counts and allocation
//! accounting.  Histories keep the documented discipline (unadopt before a
//! recorded handle is taken back), so no known finding is in reach.

use crate::arena;
use crate::exec::{self, shared, violate, violate_soft, CaseResult, Phase, View};
use crate::model::{Model, Oid, St, NONE};
use crate::props::{self, Tier};
use crate::runner::Kind;
use crate::world::{lib, set_phase};
use cactusref::{Adopt, Rc, Weak};
use proptest::collection::vec;
use proptest::prelude::*;
use serde::{Deserialize, Serialize};
use std::mem::ManuallyDrop;
use std::sync::atomic::{AtomicUsize, Ordering};

static XDROPS: AtomicUsize = AtomicUsize::new(0);
/// handles that values dying in the current release "own" to peers dying with
/// them: released by the destructors themselves (a destructor of a type with
/// `Drop` pops up to two per call), i.e. while the group is being torn down
static mut POOL: Vec<(usize, fn(usize))> = Vec::new();
/// destructor calls to let pass before one panics (usize::MAX: never); only
/// counted while a judged release is running
static PANIC_IN: AtomicUsize = AtomicUsize::new(usize::MAX);
static ARMED: AtomicUsize = AtomicUsize::new(0);
/// C09: no allocation-failure injection (the number of allocations a hash table
/// makes may depend on the addresses it hashes)
static NO_INJECT: AtomicUsize = AtomicUsize::new(0);
static PANICKED: AtomicUsize = AtomicUsize::new(0);

#[allow(static_mut_refs)]
fn dtor_hook() {
    XDROPS.fetch_add(1, Ordering::Relaxed);
    if ARMED.load(Ordering::Relaxed) == 0 {
        return;
    }
    for _ in 0..2 {
        let e = unsafe { POOL.pop() };
        if let Some((p, f)) = e {
            f(p);
        }
    }
    let k = PANIC_IN.load(Ordering::Relaxed);
    if k != usize::MAX && !std::thread::panicking() {
        if k == 0 {
            PANIC_IN.store(usize::MAX, Ordering::Relaxed);
            PANICKED.store(1, Ordering::Relaxed);
            std::panic::panic_any(crate::interp::Injected);
        }
        PANIC_IN.store(k - 1, Ordering::Relaxed);
    }
}

fn release_raw<T>(p: usize) {
    drop(unsafe { Rc::<T>::from_raw(p as *const T) });
}

pub trait Payload: Sized + Clone + 'static {
    const NAME: &'static str;
    /// the type has a destructor that bumps `XDROPS`
    const COUNTS: bool;
    fn make(id: u32) -> Self;
    fn ok(&self, id: u32) -> bool;
}

impl Payload for () {
    const NAME: &'static str = "()";
    const COUNTS: bool = false;
    fn make(_: u32) {}
    fn ok(&self, _: u32) -> bool {
        true
    }
}

#[derive(Clone)]
pub struct ZDrop;
impl Drop for ZDrop {
    fn drop(&mut self) {
        dtor_hook();
    }
}
impl Payload for ZDrop {
    const NAME: &'static str = "zero-sized with Drop";
    const COUNTS: bool = true;
    fn make(_: u32) -> Self {
        ZDrop
    }
    fn ok(&self, _: u32) -> bool {
        true
    }
}

impl Payload for u8 {
    const NAME: &'static str = "u8";
    const COUNTS: bool = false;
    fn make(id: u32) -> u8 {
        id as u8 ^ 0x5A
    }
    fn ok(&self, id: u32) -> bool {
        *self == id as u8 ^ 0x5A
    }
}

impl Payload for [u8; 3] {
    const NAME: &'static str = "[u8; 3]";
    const COUNTS: bool = false;
    fn make(id: u32) -> Self {
        [id as u8, (id >> 8) as u8, 0xC3]
    }
    fn ok(&self, id: u32) -> bool {
        *self == [id as u8, (id >> 8) as u8, 0xC3]
    }
}

impl Payload for u32 {
    const NAME: &'static str = "u32";
    const COUNTS: bool = false;
    fn make(id: u32) -> u32 {
        id ^ 0xA5A5_0000
    }
    fn ok(&self, id: u32) -> bool {
        *self == id ^ 0xA5A5_0000
    }
}

/// size 13, alignment 1, with a destructor
#[derive(Clone)]
#[repr(C, packed)]
pub struct Packed13 {
    id: u32,
    tag: u8,
    rest: u64,
}
impl Drop for Packed13 {
    fn drop(&mut self) {
        dtor_hook();
    }
}
impl Payload for Packed13 {
    const NAME: &'static str = "packed, 13 bytes, with Drop";
    const COUNTS: bool = true;
    fn make(id: u32) -> Self {
        Packed13 { id, tag: 0x77, rest: !(id as u64) }
    }
    fn ok(&self, id: u32) -> bool {
        let (i, t, r) = (self.id, self.tag, self.rest);
        i == id && t == 0x77 && r == !(id as u64)
    }
}

/// larger than a page, no drop glue, size not a multiple of 8
#[derive(Clone)]
pub struct Big5k {
    id: u32,
    pad: [u8; 5001],
}
impl Payload for Big5k {
    const NAME: &'static str = "5 KiB without drop glue";
    const COUNTS: bool = false;
    fn make(id: u32) -> Self {
        Big5k { id, pad: [id as u8; 5001] }
    }
    fn ok(&self, id: u32) -> bool {
        self.id == id && self.pad[0] == id as u8 && self.pad[5000] == id as u8 && self.pad[2500] == id as u8
    }
}

/// larger than two pages, with drop glue and a destructor
#[derive(Clone)]
pub struct Big9kDrop {
    pad: [u64; 1150],
    id: u32,
    s: String,
}
impl Drop for Big9kDrop {
    fn drop(&mut self) {
        dtor_hook();
    }
}
impl Payload for Big9kDrop {
    const NAME: &'static str = "9 KiB with drop glue";
    const COUNTS: bool = true;
    fn make(id: u32) -> Self {
        Big9kDrop { pad: [id as u64; 1150], id, s: format!("value {}", id) }
    }
    fn ok(&self, id: u32) -> bool {
        self.id == id && self.pad[0] == id as u64 && self.pad[1149] == id as u64 && self.s.len() >= 7
    }
}

#[derive(Clone)]
pub struct Huge70k {
    id: u32,
    pad: [u8; 70_000],
}
impl Payload for Huge70k {
    const NAME: &'static str = "70 KB without drop glue";
    const COUNTS: bool = false;
    fn make(id: u32) -> Self {
        Huge70k { id, pad: [id as u8; 70_000] }
    }
    fn ok(&self, id: u32) -> bool {
        self.id == id && self.pad[0] == id as u8 && self.pad[69_999] == id as u8
    }
}

#[derive(Clone)]
#[repr(align(256))]
pub struct A256(u32);
impl Payload for A256 {
    const NAME: &'static str = "align(256)";
    const COUNTS: bool = false;
    fn make(id: u32) -> Self {
        A256(id)
    }
    fn ok(&self, id: u32) -> bool {
        self.0 == id && (self as *const Self as usize) % 256 == 0
    }
}

#[derive(Clone)]
#[repr(align(4096))]
pub struct A4096(u32, String);
impl Drop for A4096 {
    fn drop(&mut self) {
        dtor_hook();
    }
}
impl Payload for A4096 {
    const NAME: &'static str = "align(4096) with drop glue";
    const COUNTS: bool = true;
    fn make(id: u32) -> Self {
        A4096(id, format!("{}", id))
    }
    fn ok(&self, id: u32) -> bool {
        self.0 == id && (self as *const Self as usize) % 4096 == 0
    }
}

impl Payload for String {
    const NAME: &'static str = "String";
    const COUNTS: bool = false;
    fn make(id: u32) -> String {
        format!("string payload {}", id)
    }
    fn ok(&self, id: u32) -> bool {
        *self == format!("string payload {}", id)
    }
}

pub const NTYPES: u8 = 12;

pub fn type_name(ty: u8) -> &'static str {
    match ty % NTYPES {
        0 => <() as Payload>::NAME,
        1 => ZDrop::NAME,
        2 => <u8 as Payload>::NAME,
        3 => <[u8; 3] as Payload>::NAME,
        4 => <u32 as Payload>::NAME,
        5 => Packed13::NAME,
        6 => Big5k::NAME,
        7 => Big9kDrop::NAME,
        8 => Huge70k::NAME,
        9 => A256::NAME,
        10 => A4096::NAME,
        _ => <String as Payload>::NAME,
    }
}

#[derive(Clone, Debug, PartialEq, Eq, Serialize, Deserialize)]
pub enum XOp {
    /// `via`: 0 Rc::new, 1 From<T>, 2 From<Box<T>>, 3 Rc::pin
    New { probe: bool, via: u8 },
    Clone(u16),
    DropRoot(u16),
    /// clone the handle `target`, record the adoption (if `adopt`) and hand the
    /// clone to the object behind root `owner`
    Store { owner: u16, target: u16, adopt: bool },
    /// take a stored handle back (unadopt first whenever it is recorded)
    Remove { owner: u16, slot: u16, unadopt: bool, keep: bool },
    Downgrade(u16),
    Upgrade(u16),
    DropWeak(u16),
    CloneWeak(u16),
    WeakCloneFrom { dst: u16, src: u16 },
    WeakNew,
    WeakRaw(u16),
    RawRound(u16),
    IncDec(u16),
    TryUnwrap(u16),
    GetMut(u16),
    MakeMut(u16),
    CloneFrom { dst: u16, src: u16 },
    /// a new hub that adopts `spokes` new objects (it owns their only handle);
    /// `back`: every spoke also adopts the hub
    Hub { spokes: u16, back: bool },
    /// a new adopted ring of `n` objects; one root (to the first member) remains
    Ring { n: u8, double: bool },
    Audit,
}

#[derive(Clone, Debug, PartialEq, Eq, Serialize, Deserialize)]
pub struct TypesCase {
    /// index into the list of payload types
    pub ty: u8,
    pub layout_seed: u64,
    pub xops: Vec<XOp>,
    pub cleanup: Vec<u16>,
    /// types with a destructor: the (k+1)-th destructor call made by the library
    /// during a release panics (once per case)
    #[serde(default)]
    pub panic_in: Option<u8>,
    /// C09: heap layout of this run when it differs from the one derived from
    /// `layout_seed` (which also selects log level and failure injection)
    #[serde(default, skip_serializing_if = "Option::is_none")]
    pub arena_seed: Option<u64>,
}

pub const L_ZST: u32 = 0;
pub const L_ODD_SIZE: u32 = 1;
pub const L_GT_PAGE: u32 = 2;
pub const L_OVER_ALIGNED: u32 = 3;
pub const L_NO_DROP_GLUE: u32 = 4;
pub const L_GROUP: u32 = 5;
pub const L_HUB_GT128: u32 = 6;
pub const L_UNWRAP_REC: u32 = 7;
pub const L_MAKEMUT_MOVE_REC: u32 = 8;
pub const L_MAKEMUT_CLONE: u32 = 9;
pub const L_WEAK_RAW: u32 = 10;
pub const L_WEAK_NEW_RAW: u32 = 11;
pub const L_RULEB_REC: u32 = 12;
pub const L_CLONE_FROM: u32 = 13;
pub const L_GETMUT_SOME: u32 = 14;
pub const L_LEAK_CHECK: u32 = 15;
pub const L_ADOPTED: u32 = 16;
pub const L_SELF: u32 = 17;
pub const L_UNWRAP_OK: u32 = 18;
pub const L_WEAK_DEAD: u32 = 19;
pub const L_DTOR_RELEASE: u32 = 20;
pub const L_PANIC: u32 = 21;
pub const L_ALLOC_FAIL: u32 = 22;
pub const NAMES: [&str; 23] = [
    "zero_sized_payload",
    "payload_size_not_multiple_of_8",
    "payload_larger_than_a_page",
    "payload_alignment>=256",
    "payload_without_drop_glue",
    "group>=2_collected",
    "table_with>128_records",
    "try_unwrap_ok_on_object_with_records",
    "make_mut_moved_object_with_records",
    "make_mut_cloned",
    "weak_raw_round_trip",
    "weak_new_raw_round_trip",
    "zero_count_death_with_records",
    "clone_from",
    "get_mut_some",
    "leak_check_done",
    "adoption_recorded",
    "self_adoption",
    "try_unwrap_ok",
    "weak_used_after_death",
    "destructor_released_a_handle_to_a_peer_dying_with_it",
    "destructor_panicked_during_a_release",
    "injected_allocation_failure_handled_without_abort",
];

fn pick(sel: u16, len: usize) -> Option<usize> {
    if len == 0 {
        None
    } else {
        Some((sel as usize * len) >> 16)
    }
}

struct X<T: Payload> {
    m: Model,
    roots: Vec<Rc<T>>,
    wroots: Vec<Weak<T>>,
    owned: Vec<Vec<*const T>>,
    probe: Vec<Option<Weak<T>>>,
    vptr: Vec<*const T>,
    pid: Vec<u32>,
    addr: Vec<(usize, Oid)>,
    /// handles of dead owners waiting to be released (paired with `m.raws`)
    pending: Vec<*const T>,
    labels: u64,
    adoptions: u64,
    max_objs: usize,
    panicked: bool,
}

fn fmt_set(v: &[Oid]) -> String {
    if v.len() > 12 {
        format!("{:?}.. ({} objects)", &v[..12], v.len())
    } else {
        format!("{:?}", v)
    }
}

impl<T: Payload> X<T> {
    fn new() -> X<T> {
        let sz = std::mem::size_of::<T>();
        let mut labels = 0u64;
        if sz == 0 {
            labels |= 1 << L_ZST;
        }
        if sz % 8 != 0 {
            labels |= 1 << L_ODD_SIZE;
        }
        if sz > 4096 {
            labels |= 1 << L_GT_PAGE;
        }
        if std::mem::align_of::<T>() >= 256 {
            labels |= 1 << L_OVER_ALIGNED;
        }
        if !std::mem::needs_drop::<T>() {
            labels |= 1 << L_NO_DROP_GLUE;
        }
        X {
            m: Model::default(),
            roots: vec![],
            wroots: vec![],
            owned: vec![],
            probe: vec![],
            vptr: vec![],
            pid: vec![],
            addr: vec![],
            pending: vec![],
            labels,
            adoptions: 0,
            panicked: false,
            max_objs: if sz > 60_000 { 40 } else if sz > 4096 { 150 } else { 700 },
        }
    }

    fn lab(&mut self, l: u32) {
        self.labels |= 1 << l;
    }

    fn borrow(&self, o: Oid) -> ManuallyDrop<Rc<T>> {
        ManuallyDrop::new(unsafe { Rc::from_raw(self.vptr[o as usize]) })
    }

    fn has_probe(&self, o: Oid) -> usize {
        usize::from(self.probe[o as usize].is_some())
    }

    fn weak_total(&self, o: Oid) -> usize {
        self.m.weak(o) + self.has_probe(o)
    }

    fn register(&mut self, h: &Rc<T>, pid: u32, probe: bool) -> Oid {
        let addr = Rc::__verif_addr(h);
        let vp = Rc::as_ptr(h);
        let id = self.m.new_obj(addr, vp as usize, false);
        self.owned.push(vec![]);
        self.vptr.push(vp);
        self.pid.push(pid);
        self.addr.push((addr, id));
        let p = if probe {
            let prev = set_phase(Phase::WeakCall);
            let w = {
                let _t = arena::track_on();
                Rc::downgrade(h)
            };
            shared().phase = prev;
            Some(w)
        } else {
            None
        };
        self.probe.push(p);
        id
    }

    fn new_obj(&mut self, probe: bool, via: u8) -> Option<Oid> {
        if self.m.n() >= self.max_objs {
            return None;
        }
        let id = self.m.n() as u32;
        let v = T::make(id);
        let h = match via % 4 {
            0 => lib(|| Rc::new(v)),
            1 => lib(|| Rc::from(v)),
            3 => lib(|| unsafe { std::pin::Pin::into_inner_unchecked(Rc::pin(v)) }),
            _ => {
                let b = Box::new(v);
                lib(|| Rc::from(b))
            }
        };
        let o = self.register(&h, id, probe);
        self.roots.push(h);
        self.m.roots.push(o);
        Some(o)
    }

    /// The handle instance to `t` has already been removed from the model;
    /// `release` makes the library release it.
    fn judged_release(&mut self, t: Oid, what: &str, release: impl FnOnce()) {
        let _ = &release;
        let expected: Vec<Oid> = if self.m.objs[t as usize].st != St::Alive {
            vec![]
        } else if self.m.strong(t) == 0 {
            if self.m.has_records(t) {
                self.lab(L_RULEB_REC);
            }
            vec![t]
        } else {
            self.m.rule_a(t).unwrap_or_default()
        };
        if expected.len() >= 2 {
            self.lab(L_GROUP);
        }
        let d0 = XDROPS.load(Ordering::Relaxed);
        exec::set_msg(&format!("{} (handle to object {}, payload {})", what, t, T::NAME));
        // handles of dying owners to peers dying with them are released by the
        // destructors themselves (types with a destructor only)
        if T::COUNTS {
            for &x in &expected {
                let mut k = 0;
                while k < self.owned[x as usize].len() {
                    let y = self.m.objs[x as usize].slots[k];
                    if expected.contains(&y) {
                        let p = self.owned[x as usize].remove(k);
                        self.m.objs[x as usize].slots.remove(k);
                        #[allow(static_mut_refs)]
                        unsafe {
                            POOL.push((p as usize, release_raw::<T>))
                        };
                        self.lab(L_DTOR_RELEASE);
                    } else {
                        k += 1;
                    }
                }
            }
        }
        ARMED.store(1, Ordering::Relaxed);
        let r = std::panic::catch_unwind(std::panic::AssertUnwindSafe(release));
        ARMED.store(0, Ordering::Relaxed);
        shared().phase = Phase::Harness as u32;
        arena::st().track = false;
        #[allow(static_mut_refs)]
        unsafe {
            // not reached by a destructor (a panic cut the teardown short): leaked
            POOL.clear()
        };
        let fired = PANICKED.swap(0, Ordering::Relaxed) != 0;
        match r {
            Err(e) => {
                if !fired {
                    let loc = crate::interp::take_panic_loc();
                    std::mem::forget(e);
                    violate(View::LibPanic, &format!("{}: the library panicked: {} (payload {})", what, loc, T::NAME));
                }
                std::mem::forget(e);
                self.lab(L_PANIC);
                self.panicked = true;
            }
            Ok(()) => {
                if fired {
                    violate(View::PanicSafe, &format!("{}: a destructor panicked but the panic did not reach the caller (payload {})", what, T::NAME));
                }
            }
        }
        let ran = XDROPS.load(Ordering::Relaxed) - d0;
        // C09: what this release destroyed, as a function of the call sequence
        {
            let sh = shared();
            let mut h = sh.digest ^ (sh.op as u64).wrapping_mul(0x9E37_79B9_7F4A_7C15);
            for &x in &expected {
                h = (h ^ (x as u64 + 1)).wrapping_mul(0x1_0000_0001_b3);
            }
            sh.digest = (h ^ ran as u64).wrapping_mul(31);
        }
        // observed deaths
        let mut extra = vec![];
        let mut missing = vec![];
        for o in 0..self.m.n() as Oid {
            if self.m.objs[o as usize].st != St::Alive {
                continue;
            }
            let Some(p) = &self.probe[o as usize] else { continue };
            let prev = set_phase(Phase::WeakCall);
            let dead = p.strong_count() == 0;
            shared().phase = prev;
            let exp = expected.contains(&o);
            if dead && !exp {
                extra.push(o);
            }
            if !dead && exp {
                missing.push(o);
            }
        }
        if !extra.is_empty() {
            violate(
                View::Premature,
                &format!("{}: objects {} were destroyed although handles to them exist that are not recorded adoptions from an orphaned group (payload {})", what, fmt_set(&extra), T::NAME),
            );
        }
        if T::COUNTS && ran > expected.len() {
            violate(View::Premature, &format!("{}: {} destructors ran but only {} may be destroyed (payload {})", what, ran, fmt_set(&expected), T::NAME));
        }
        if !missing.is_empty() || (T::COUNTS && ran < expected.len()) {
            violate_soft(
                View::Orphan,
                &format!(
                    "{}: the release leaves {} without any handle that is not a recorded adoption from inside (or without any handle at all), but {} were not destroyed before the call returned ({} destructor(s) ran; payload {})",
                    what,
                    fmt_set(&expected),
                    if missing.is_empty() { "some".to_string() } else { fmt_set(&missing) },
                    ran,
                    T::NAME
                ),
            );
            // the model cannot follow a wrong library any further
            exec::end_pass();
        }
        for &x in &expected {
            self.m.objs[x as usize].st = St::Dead;
            self.m.purge(x);
        }
        for &x in &expected {
            let raws = std::mem::take(&mut self.owned[x as usize]);
            let slots = std::mem::take(&mut self.m.objs[x as usize].slots);
            for (p, y) in raws.into_iter().zip(slots) {
                if self.m.objs[y as usize].st == St::Alive {
                    self.pending.push(p);
                    self.m.raws.push(y);
                }
            }
        }
    }

    fn settle(&mut self) {
        while let Some(p) = self.pending.pop() {
            let y = self.m.raws.pop().expect("pending/raws out of step");
            let h = unsafe { Rc::from_raw(p) };
            self.judged_release(y, "release of a handle owned by a destroyed object", move || lib(|| drop(h)));
        }
    }

    fn drop_handle(&mut self, h: Rc<T>, t: Oid, what: &str) {
        self.judged_release(t, what, move || lib(|| drop(h)));
        self.settle();
    }

    fn oid_of(&self, a: usize) -> Option<Oid> {
        self.addr.iter().rev().find(|e| e.0 == a).map(|e| e.1)
    }

    fn audit_obj(&mut self, o: Oid, strong: &[usize], weak: &[usize], want_all: &mut [Vec<(u8, Oid, usize)>], amap: &std::collections::HashMap<usize, Oid>) {
        let h = self.borrow(o);
        let prev = set_phase(Phase::HeldDeref);
        let (sc, wc, ok) = (Rc::strong_count(&h), Rc::weak_count(&h), T::ok(&h, self.pid[o as usize]));
        shared().phase = prev;
        if !ok {
            violate(View::Premature, &format!("the value of live object {} (payload {}) is no longer the original value", o, T::NAME));
        }
        let (ms, mw) = (strong[o as usize], weak[o as usize] + self.has_probe(o));
        if sc != ms || wc != mw {
            violate_soft(View::Count, &format!("object {} (payload {}): strong_count={} weak_count={} but {} strong and {} Weak handle instances exist", o, T::NAME, sc, wc, ms, mw));
        }
        let prev = set_phase(Phase::HeldDeref);
        let snap = Rc::__verif_links(&h);
        shared().phase = prev;
        let mut got: Vec<(u8, Oid, usize)> = vec![];
        for &(a, kind, cnt) in &snap {
            if cnt == 0 {
                continue;
            }
            match amap.get(&a).copied() {
                Some(t) if self.m.objs[t as usize].st == St::Alive => got.push((kind, t, cnt)),
                Some(t) => {
                    violate_soft(View::Table, &format!("table of live object {} still has an entry (kind {}, count {}) naming object {} which is {:?} (payload {})", o, kind, cnt, t, self.m.objs[t as usize].st, T::NAME));
                    return;
                }
                None => {
                    violate_soft(View::Table, &format!("table of object {} has an entry naming address {:#x} which is no object (payload {})", o, a, T::NAME));
                    return;
                }
            }
        }
        got.sort();
        let mut want = std::mem::take(&mut want_all[o as usize]);
        want.sort();
        if got.len() > 128 {
            self.lab(L_HUB_GT128);
        }
        if got != want {
            let show = |v: &Vec<(u8, Oid, usize)>| if v.len() > 10 { format!("{:?}.. ({} entries)", &v[..10], v.len()) } else { format!("{:?}", v) };
            violate_soft(
                View::Table,
                &format!("table of object {} (payload {}) is {} but the calls imply {} (kind 0=owner->target, 1=adopted-by; (kind,object,count))", o, T::NAME, show(&got), show(&want)),
            );
        }
    }

    fn audit(&mut self, full: bool) {
        if !full && self.m.n() > 48 {
            return;
        }
        let n = self.m.n();
        let mut strong = vec![0usize; n];
        let mut weak = vec![0usize; n];
        for &t in self.m.roots.iter().chain(self.m.raws.iter()) {
            strong[t as usize] += 1;
        }
        for ob in &self.m.objs {
            for &t in &ob.slots {
                strong[t as usize] += 1;
            }
        }
        for &t in self.m.wroots.iter() {
            if t != NONE {
                weak[t as usize] += 1;
            }
        }
        let mut want_all: Vec<Vec<(u8, Oid, usize)>> = vec![vec![]; n];
        for (&(a, b), &c) in self.m.r.iter() {
            if c > 0 {
                want_all[a as usize].push((0, b, c));
                want_all[b as usize].push((1, a, c));
            }
        }
        let amap: std::collections::HashMap<usize, Oid> = self.addr.iter().map(|e| (e.0, e.1)).collect();
        for o in 0..n as Oid {
            if self.m.objs[o as usize].st == St::Alive {
                self.audit_obj(o, &strong, &weak, &mut want_all, &amap);
            } else if let Some(p) = &self.probe[o as usize] {
                let prev = set_phase(Phase::WeakCall);
                let (sc, wc, up) = (p.strong_count(), p.weak_count(), p.upgrade().is_some());
                shared().phase = prev;
                if sc != 0 || wc != 0 || up {
                    violate_soft(View::Weak, &format!("Weak to destroyed object {} (payload {}) reports strong_count={} weak_count={} upgrade.is_some()={}", o, T::NAME, sc, wc, up));
                }
            }
        }
        // C04 / C05: the allocation of an object is released iff its value is gone
        // and no Weak to it remains
        for o in 0..n as Oid {
            let Some(bi) = arena::block_of(self.m.objs[o as usize].addr) else { continue };
            let b = arena::blocks()[bi];
            let gone = self.m.objs[o as usize].st != St::Alive;
            let should_be_free = gone && weak[o as usize] + self.has_probe(o) == 0;
            if b.freed && !should_be_free {
                violate(
                    if gone { View::Weak } else { View::Premature },
                    &format!("the allocation of object {} (payload {}) was released although {}", o, T::NAME, if gone { "Weak handles to it remain" } else { "it is alive" }),
                );
            }
            if !b.freed && should_be_free && !self.panicked {
                violate_soft(View::Leak, &format!("object {} (payload {}) is gone and no Weak remains, but its allocation is still held", o, T::NAME));
            }
        }
        // identity: ptr_eq agrees with "same object" (both dangling counts as same)
        for a in 0..self.wroots.len().min(6) {
            for b in 0..a {
                let prev = set_phase(Phase::WeakCall);
                let pe = self.wroots[a].ptr_eq(&self.wroots[b]);
                shared().phase = prev;
                if pe != (self.m.wroots[a] == self.m.wroots[b]) {
                    violate_soft(View::Weak, &format!("Weak::ptr_eq is {} for Weak handles to objects {} and {} (payload {})", pe, self.m.wroots[a] as i64, self.m.wroots[b] as i64, T::NAME));
                }
            }
        }
        for a in 0..self.roots.len().min(6) {
            for b in 0..a {
                let pe = Rc::ptr_eq(&self.roots[a], &self.roots[b]);
                if pe != (self.m.roots[a] == self.m.roots[b]) {
                    violate_soft(View::Count, &format!("Rc::ptr_eq is {} for handles to objects {} and {} (payload {})", pe, self.m.roots[a], self.m.roots[b], T::NAME));
                }
            }
        }
        for k in 0..self.wroots.len() {
            let t = self.m.wroots[k];
            let w = &self.wroots[k];
            let prev = set_phase(Phase::WeakCall);
            let (sc, wc) = (w.strong_count(), w.weak_count());
            shared().phase = prev;
            let (ms, mw) = if t != NONE && self.m.objs[t as usize].st == St::Alive { (strong[t as usize], weak[t as usize] + self.has_probe(t)) } else { (0, 0) };
            if sc != ms || wc != mw {
                violate_soft(View::Weak, &format!("Weak to object {} (payload {}) reports strong_count={} weak_count={}, expected {}/{}", t as i64, T::NAME, sc, wc, ms, mw));
            }
        }
    }

    fn apply(&mut self, op: &XOp) {
        match op {
            XOp::New { probe, via } => {
                self.new_obj(*probe, *via);
            }
            XOp::Clone(s) => {
                let Some(i) = pick(*s, self.roots.len()) else { return };
                let c = lib(|| Rc::clone(&self.roots[i]));
                let t = self.m.roots[i];
                self.roots.push(c);
                self.m.roots.push(t);
            }
            XOp::DropRoot(s) => {
                let Some(i) = pick(*s, self.roots.len()) else { return };
                let h = self.roots.remove(i);
                let t = self.m.roots.remove(i);
                self.drop_handle(h, t, "drop of a handle held by the program");
            }
            XOp::Store { owner, target, adopt } => {
                let (Some(i), Some(j)) = (pick(*owner, self.roots.len()), pick(*target, self.roots.len())) else { return };
                let (o, t) = (self.m.roots[i], self.m.roots[j]);
                if self.owned[o as usize].len() >= 640 {
                    return;
                }
                let c = lib(|| Rc::clone(&self.roots[j]));
                if *adopt {
                    lib(|| unsafe { Rc::adopt_unchecked(&self.roots[i], &c) });
                    self.m.add_rec(o, t);
                    self.adoptions += 1;
                    self.lab(L_ADOPTED);
                    if o == t {
                        self.lab(L_SELF);
                    }
                }
                let p = lib(|| Rc::into_raw(c));
                if p != self.vptr[t as usize] {
                    violate(View::Consume, &format!("Rc::into_raw of a handle to object {} (payload {}) is not Rc::as_ptr of that object", t, T::NAME));
                }
                self.owned[o as usize].push(p);
                self.m.objs[o as usize].slots.push(t);
            }
            XOp::Remove { owner, slot, unadopt, keep } => {
                let Some(i) = pick(*owner, self.roots.len()) else { return };
                let o = self.m.roots[i];
                let Some(j) = pick(*slot, self.owned[o as usize].len()) else { return };
                let t = self.m.objs[o as usize].slots[j];
                let must = self.m.rec(o, t) >= self.m.held(o, t);
                if must || *unadopt {
                    let hb = ManuallyDrop::new(unsafe { Rc::from_raw(self.owned[o as usize][j]) });
                    lib(|| Rc::unadopt(&self.roots[i], &hb));
                    self.m.sub_rec(o, t);
                }
                let p = self.owned[o as usize].remove(j);
                self.m.objs[o as usize].slots.remove(j);
                let h = lib(|| unsafe { Rc::from_raw(p) });
                if *keep {
                    self.roots.push(h);
                    self.m.roots.push(t);
                } else {
                    self.drop_handle(h, t, "drop of a handle taken back from its owner (after unadopt)");
                }
            }
            XOp::Downgrade(s) => {
                let Some(i) = pick(*s, self.roots.len()) else { return };
                let prev = set_phase(Phase::WeakCall);
                let w = {
                    let _t = arena::track_on();
                    Rc::downgrade(&self.roots[i])
                };
                shared().phase = prev;
                self.wroots.push(w);
                self.m.wroots.push(self.m.roots[i]);
            }
            XOp::CloneWeak(s) => {
                let Some(k) = pick(*s, self.wroots.len()) else { return };
                let prev = set_phase(Phase::WeakCall);
                let w = {
                    let _t = arena::track_on();
                    Weak::clone(&self.wroots[k])
                };
                shared().phase = prev;
                self.wroots.push(w);
                let t = self.m.wroots[k];
                self.m.wroots.push(t);
            }
            XOp::DropWeak(s) => {
                let Some(k) = pick(*s, self.wroots.len()) else { return };
                let w = self.wroots.remove(k);
                self.m.wroots.remove(k);
                let prev = set_phase(Phase::WeakCall);
                {
                    let _t = arena::track_on();
                    drop(w);
                }
                shared().phase = prev;
            }
            XOp::WeakCloneFrom { dst, src } => {
                let n = self.wroots.len();
                let (Some(i), Some(j)) = (pick(*dst, n), pick(*src, n)) else { return };
                if i == j {
                    return;
                }
                let sp: *const Weak<T> = &self.wroots[j];
                let prev = set_phase(Phase::WeakCall);
                {
                    let _t = arena::track_on();
                    self.wroots[i].clone_from(unsafe { &*sp });
                }
                shared().phase = prev;
                self.m.wroots[i] = self.m.wroots[j];
            }
            XOp::WeakNew => {
                let w = lib(Weak::new);
                self.wroots.push(w);
                self.m.wroots.push(NONE);
            }
            XOp::Upgrade(s) => {
                let Some(k) = pick(*s, self.wroots.len()) else { return };
                let t = self.m.wroots[k];
                let prev = set_phase(Phase::WeakCall);
                let up = {
                    let _t = arena::track_on();
                    self.wroots[k].upgrade()
                };
                shared().phase = prev;
                let alive = t != NONE && self.m.objs[t as usize].st == St::Alive;
                if t != NONE && !alive {
                    self.lab(L_WEAK_DEAD);
                }
                match up {
                    Some(h) => {
                        if !alive {
                            violate(View::Weak, &format!("Weak::upgrade returned a handle to {} (payload {})", if t == NONE { "nothing (Weak::new)".to_string() } else { format!("destroyed object {}", t) }, T::NAME));
                        }
                        if Rc::as_ptr(&h) != self.vptr[t as usize] {
                            violate(View::Weak, "Weak::upgrade returned a handle to a different object");
                        }
                        self.roots.push(h);
                        self.m.roots.push(t);
                    }
                    None => {
                        if alive {
                            violate_soft(View::Weak, &format!("Weak::upgrade returned None for live object {} (payload {})", t, T::NAME));
                            exec::end_pass();
                        }
                    }
                }
            }
            XOp::WeakRaw(s) => {
                let Some(k) = pick(*s, self.wroots.len()) else { return };
                let t = self.m.wroots[k];
                let w = self.wroots.remove(k);
                let prev = set_phase(Phase::WeakCall);
                let _t = arena::track_on();
                let ap = w.as_ptr();
                let p = w.into_raw();
                if p != ap {
                    violate_soft(View::Weak, "Weak::into_raw returned a pointer different from Weak::as_ptr");
                }
                if t != NONE && self.m.objs[t as usize].st == St::Alive && p != self.vptr[t as usize] {
                    violate_soft(View::Weak, &format!("Weak::into_raw of a Weak to live object {} (payload {}) does not point at its value", t, T::NAME));
                }
                let w = unsafe { Weak::from_raw(p) };
                drop(_t);
                shared().phase = prev;
                self.wroots.insert(k, w);
                self.lab(if t == NONE { L_WEAK_NEW_RAW } else { L_WEAK_RAW });
            }
            XOp::RawRound(s) => {
                let Some(i) = pick(*s, self.roots.len()) else { return };
                let t = self.m.roots[i];
                let h = self.roots.remove(i);
                let p = lib(|| Rc::into_raw(h));
                if p != self.vptr[t as usize] {
                    violate(View::Consume, &format!("Rc::into_raw of a handle to object {} (payload {}) is not the address of its value", t, T::NAME));
                }
                let h = lib(|| unsafe { Rc::from_raw(p) });
                self.roots.insert(i, h);
            }
            XOp::IncDec(s) => {
                let Some(i) = pick(*s, self.roots.len()) else { return };
                let t = self.m.roots[i];
                let p = Rc::as_ptr(&self.roots[i]);
                lib(|| unsafe { Rc::increment_strong_count(p) });
                let sc = Rc::strong_count(&self.roots[i]);
                if sc != self.m.strong(t) + 1 {
                    violate_soft(View::Count, &format!("after increment_strong_count object {} (payload {}) reports strong_count={}, {} handles exist", t, T::NAME, sc, self.m.strong(t) + 1));
                }
                self.judged_release(t, "decrement_strong_count", move || lib(|| unsafe { Rc::decrement_strong_count(p) }));
                self.settle();
            }
            XOp::TryUnwrap(s) => {
                let Some(i) = pick(*s, self.roots.len()) else { return };
                let t = self.m.roots[i];
                let h = self.roots.remove(i);
                self.m.roots.remove(i);
                let sole = self.m.strong(t) == 0;
                let had_rec = self.m.has_records(t);
                exec::set_msg(&format!("try_unwrap of a handle to object {} (payload {})", t, T::NAME));
                let r = lib(|| Rc::try_unwrap(h));
                match r {
                    Ok(v) => {
                        if !sole {
                            violate(View::Consume, &format!("try_unwrap succeeded on object {} although {} other strong handle(s) exist (payload {})", t, self.m.strong(t), T::NAME));
                        }
                        if !v.ok(self.pid[t as usize]) {
                            violate(View::Consume, &format!("try_unwrap of object {} (payload {}) returned a different value", t, T::NAME));
                        }
                        let d0 = XDROPS.load(Ordering::Relaxed);
                        drop(v);
                        if T::COUNTS && XDROPS.load(Ordering::Relaxed) != d0 + 1 {
                            violate(View::Consume, "the unwrapped value was destroyed before it was handed out");
                        }
                        self.lab(L_UNWRAP_OK);
                        if had_rec {
                            self.lab(L_UNWRAP_REC);
                        }
                        self.m.objs[t as usize].st = St::Moved;
                        self.m.purge(t);
                        // the program now owns what the value owned
                        let raws = std::mem::take(&mut self.owned[t as usize]);
                        let slots = std::mem::take(&mut self.m.objs[t as usize].slots);
                        for (p, y) in raws.into_iter().zip(slots) {
                            self.roots.push(unsafe { Rc::from_raw(p) });
                            self.m.roots.push(y);
                        }
                    }
                    Err(h) => {
                        if sole {
                            violate(View::Consume, &format!("try_unwrap failed on the sole strong handle to object {} (payload {})", t, T::NAME));
                        }
                        self.roots.push(h);
                        self.m.roots.push(t);
                    }
                }
            }
            XOp::GetMut(s) => {
                let Some(i) = pick(*s, self.roots.len()) else { return };
                let t = self.m.roots[i];
                let want = self.m.strong(t) == 1 && self.weak_total(t) == 0;
                let pid = self.pid[t as usize];
                let got = lib(|| Rc::get_mut(&mut self.roots[i]).map(|v| v.ok(pid)));
                if got.is_some() != want {
                    violate(View::Consume, &format!("get_mut on object {} (payload {}) returned is_some()={} with {} strong / {} Weak handles", t, T::NAME, got.is_some(), self.m.strong(t), self.weak_total(t)));
                }
                if got == Some(false) {
                    violate(View::Consume, "get_mut returned a reference to a different value");
                }
                if !lib(|| unsafe { Rc::get_mut_unchecked(&mut self.roots[i]).ok(pid) }) {
                    violate(View::Consume, "get_mut_unchecked returned a reference to a different value");
                }
                if want {
                    self.lab(L_GETMUT_SOME);
                }
            }
            XOp::MakeMut(s) => {
                let Some(i) = pick(*s, self.roots.len()) else { return };
                if self.m.n() >= self.max_objs {
                    return;
                }
                let t = self.m.roots[i];
                let pid = self.pid[t as usize];
                let (strong, weak) = (self.m.strong(t), self.weak_total(t));
                let mut h = self.roots.remove(i);
                self.m.roots.remove(i);
                if strong == 1 && weak == 0 {
                    let ok = lib(|| Rc::make_mut(&mut h).ok(pid));
                    if !ok || Rc::as_ptr(&h) != self.vptr[t as usize] {
                        violate(View::Consume, &format!("make_mut on the unique handle to object {} (payload {}) did not return the value in place", t, T::NAME));
                    }
                    self.roots.insert(i, h);
                    self.m.roots.insert(i, t);
                } else if strong == 1 {
                    // the value moves to a new allocation; the old one is given up
                    let had_rec = self.m.has_records(t);
                    exec::set_msg(&format!("make_mut on the sole strong handle to object {} with {} Weak (payload {})", t, weak, T::NAME));
                    let ok = lib(|| Rc::make_mut(&mut h).ok(pid));
                    if !ok {
                        violate(View::Consume, "make_mut returned a reference to a different value");
                    }
                    if Rc::as_ptr(&h) == self.vptr[t as usize] {
                        violate(View::Consume, &format!("make_mut on object {} with outstanding Weak handles did not move the value (payload {})", t, T::NAME));
                    }
                    if had_rec {
                        self.lab(L_MAKEMUT_MOVE_REC);
                    }
                    self.m.objs[t as usize].st = St::Moved;
                    self.m.purge(t);
                    let n = self.register(&h, pid, false);
                    self.owned[n as usize] = std::mem::take(&mut self.owned[t as usize]);
                    self.m.objs[n as usize].slots = std::mem::take(&mut self.m.objs[t as usize].slots);
                    self.roots.insert(i, h);
                    self.m.roots.insert(i, n);
                } else {
                    // clone branch: the caller's handle is replaced by a handle to a
                    // new object; its old handle instance is released
                    self.lab(L_MAKEMUT_CLONE);
                    // in flight: the caller's handle (no path while borrowed)
                    let hp: *mut Rc<T> = &mut h;
                    self.judged_release(t, "make_mut on a shared handle (clone branch)", move || {
                        lib(|| {
                            Rc::make_mut(unsafe { &mut *hp });
                        })
                    });
                    if Rc::as_ptr(&h) == self.vptr[t as usize] {
                        violate(View::Consume, &format!("make_mut on shared object {} did not clone the value into a new allocation (payload {})", t, T::NAME));
                    }
                    if !T::ok(&h, pid) {
                        violate(View::Consume, "make_mut (clone branch) yields a different value");
                    }
                    let n = self.register(&h, pid, false);
                    self.roots.insert(i, h);
                    self.m.roots.insert(i, n);
                    self.settle();
                }
            }
            XOp::CloneFrom { dst, src } => {
                if self.roots.len() < 2 {
                    return;
                }
                let Some(i) = pick(*dst, self.roots.len()) else { return };
                let mut h = self.roots.remove(i);
                let t_old = self.m.roots.remove(i);
                let Some(j) = pick(*src, self.roots.len()) else { return };
                let t_src = self.m.roots[j];
                self.lab(L_CLONE_FROM);
                // the clone exists before the old handle instance is released
                self.m.roots.insert(i, t_src);
                let hp: *mut Rc<T> = &mut h;
                let sp: *const Rc<T> = &self.roots[j];
                self.judged_release(t_old, "clone_from over a handle", move || lib(|| unsafe { (*hp).clone_from(&*sp) }));
                if Rc::as_ptr(&h) != self.vptr[t_src as usize] {
                    violate(View::Mem, "clone_from left the overwritten handle pointing somewhere else");
                }
                self.roots.insert(i, h);
                self.settle();
            }
            XOp::Hub { spokes, back } => {
                // log-uniform 2..600
                let f = *spokes as f64 / 65535.0;
                let k = (2.0f64.ln() + f * (600.0f64.ln() - 2.0f64.ln())).exp().round() as usize;
                let Some(hub) = self.new_obj(true, 0) else { return };
                let hi = self.roots.len() - 1;
                for _ in 0..k {
                    let Some(s) = self.new_obj(self.m.n() % 3 == 0, 0) else { break };
                    let sh = self.roots.pop().unwrap();
                    self.m.roots.pop();
                    if *back {
                        let c = lib(|| Rc::clone(&self.roots[hi]));
                        lib(|| unsafe { Rc::adopt_unchecked(&sh, &c) });
                        self.m.add_rec(s, hub);
                        self.owned[s as usize].push(lib(|| Rc::into_raw(c)));
                        self.m.objs[s as usize].slots.push(hub);
                        self.adoptions += 1;
                    }
                    lib(|| unsafe { Rc::adopt_unchecked(&self.roots[hi], &sh) });
                    self.m.add_rec(hub, s);
                    self.owned[hub as usize].push(lib(|| Rc::into_raw(sh)));
                    self.m.objs[hub as usize].slots.push(s);
                    self.adoptions += 1;
                }
                self.lab(L_ADOPTED);
            }
            XOp::Ring { n, double } => {
                let n = 2 + (*n as usize % 30);
                let Some(first) = self.new_obj(true, 0) else { return };
                let fi = self.roots.len() - 1;
                let mut prev = first;
                for _ in 1..n {
                    let Some(s) = self.new_obj(self.m.n() % 2 == 0, 1) else { break };
                    let sh = self.roots.pop().unwrap();
                    self.m.roots.pop();
                    let ph = self.borrow(prev);
                    if *double {
                        let c = lib(|| Rc::clone(&ph));
                        lib(|| unsafe { Rc::adopt_unchecked(&sh, &c) });
                        self.m.add_rec(s, prev);
                        self.owned[s as usize].push(lib(|| Rc::into_raw(c)));
                        self.m.objs[s as usize].slots.push(prev);
                    }
                    lib(|| unsafe { Rc::adopt_unchecked(&ph, &sh) });
                    self.m.add_rec(prev, s);
                    self.owned[prev as usize].push(lib(|| Rc::into_raw(sh)));
                    self.m.objs[prev as usize].slots.push(s);
                    self.adoptions += 1;
                    prev = s;
                }
                // close the ring
                let ph = self.borrow(prev);
                let c = lib(|| Rc::clone(&self.roots[fi]));
                lib(|| unsafe { Rc::adopt_unchecked(&ph, &c) });
                self.m.add_rec(prev, first);
                self.owned[prev as usize].push(lib(|| Rc::into_raw(c)));
                self.m.objs[prev as usize].slots.push(first);
                self.adoptions += 1;
                self.lab(L_ADOPTED);
            }
            XOp::Audit => self.audit(true),
        }
    }
}

fn run_typed<T: Payload>(c: &TypesCase) {
    arena::seed_layout(c.arena_seed.unwrap_or(c.layout_seed), true);
    exec::set_log_level_sel(if c.layout_seed & 2 == 2 { 1 + ((c.layout_seed >> 21) % 7) as u8 } else { 0 });
    crate::interp::install_panic_hook();
    cactusref::__verif::reset();
    XDROPS.store(0, Ordering::Relaxed);
    PANIC_IN.store(c.panic_in.map(|k| k as usize).unwrap_or(usize::MAX), Ordering::Relaxed);
    PANICKED.store(0, Ordering::Relaxed);
    let sh = shared();
    let live0 = arena::st().live;
    let mut x = X::<T>::new();
    arena::st().fail_in = if (c.layout_seed >> 28) & 7 == 0 && NO_INJECT.load(Ordering::Relaxed) == 0 { 1 + (c.layout_seed >> 32) % 160 } else { 0 };
    for (i, op) in c.xops.iter().enumerate() {
        sh.op = i as u32;
        arena::st().ctx_op = i as u32;
        if arena::st().fail_fired {
            arena::st().fail_fired = false;
            sh.expect_abort = 0;
            x.lab(L_ALLOC_FAIL);
        }
        x.apply(op);
        if cactusref::__verif::counters()[5] != 0 {
            violate(View::Mem, "the library read the link table of an allocation whose contents had been moved out (stale access)");
        }
        let consume = matches!(op, XOp::TryUnwrap(_) | XOp::MakeMut(_) | XOp::Hub { .. });
        x.audit(consume);
        sh.labels = x.labels;
    }
    if arena::st().fail_fired {
        arena::st().fail_fired = false;
        sh.expect_abort = 0;
        x.lab(L_ALLOC_FAIL);
    }
    arena::st().fail_in = 0;
    // cleanup: every handle the program holds, in the generated order
    let base = c.xops.len();
    let mut k = 0usize;
    x.audit(true);
    while !x.roots.is_empty() {
        sh.op = (base + k) as u32;
        let sel = if c.cleanup.is_empty() { 0 } else { c.cleanup[k % c.cleanup.len()] };
        let i = pick(sel, x.roots.len()).unwrap();
        let h = x.roots.remove(i);
        let t = x.m.roots.remove(i);
        x.drop_handle(h, t, "cleanup: drop of a handle held by the program");
        k += 1;
        if k % 64 == 0 || x.roots.len() < 4 {
            x.audit(false);
        }
    }
    x.audit(true);
    sh.counters[20] = x.m.n() as u64;
    sh.counters[22] = x.adoptions;
    sh.counters[23] = c.xops.len() as u64;
    // C04: if everything is gone, everything the library allocated is released
    let all_gone = x.m.objs.iter().all(|o| o.st != St::Alive);
    let prev = set_phase(Phase::WeakCall);
    {
        let _t = arena::track_on();
        for w in x.wroots.drain(..) {
            drop(w);
        }
        for p in x.probe.iter_mut() {
            drop(p.take());
        }
    }
    shared().phase = prev;
    if all_gone && !x.panicked {
        x.lab(L_LEAK_CHECK);
        let live = arena::st().live;
        if live != live0 {
            violate_soft(
                View::Leak,
                &format!("payload {}: every object destroyed and every Weak dropped, but {} block(s) allocated by the library were never released", T::NAME, live.wrapping_sub(live0)),
            );
        }
    }
    sh.labels = x.labels;
    sh.nontrivial = u32::from(x.labels & (1 << L_ADOPTED) != 0 && x.labels & ((1 << L_GROUP) | (1 << L_UNWRAP_REC) | (1 << L_MAKEMUT_MOVE_REC) | (1 << L_RULEB_REC)) != 0);
}

fn body(c: &TypesCase) {
    match c.ty % NTYPES {
        0 => run_typed::<()>(c),
        1 => run_typed::<ZDrop>(c),
        2 => run_typed::<u8>(c),
        3 => run_typed::<[u8; 3]>(c),
        4 => run_typed::<u32>(c),
        5 => run_typed::<Packed13>(c),
        6 => run_typed::<Big5k>(c),
        7 => run_typed::<Big9kDrop>(c),
        8 => run_typed::<Huge70k>(c),
        9 => run_typed::<A256>(c),
        10 => run_typed::<A4096>(c),
        _ => run_typed::<String>(c),
    }
}

fn xop_strategy(id: &str) -> BoxedStrategy<XOp> {
    let s = any::<u16>;
    let consume: u32 = if id == "C12" { 3 } else { 1 };
    prop_oneof![
        8 => (any::<bool>(), 0u8..4).prop_map(|(probe, via)| XOp::New { probe, via }),
        5 => s().prop_map(XOp::Clone),
        10 => s().prop_map(XOp::DropRoot),
        14 => (s(), s(), 0u8..6).prop_map(|(owner, target, a)| XOp::Store { owner, target, adopt: a > 0 }),
        5 => (s(), s(), any::<bool>(), any::<bool>()).prop_map(|(owner, slot, unadopt, keep)| XOp::Remove { owner, slot, unadopt, keep }),
        4 => s().prop_map(XOp::Downgrade),
        3 => s().prop_map(XOp::Upgrade),
        2 => s().prop_map(XOp::DropWeak),
        1 => s().prop_map(XOp::CloneWeak),
        2 => (s(), s()).prop_map(|(dst, src)| XOp::WeakCloneFrom { dst, src }),
        1 => Just(XOp::WeakNew),
        2 => s().prop_map(XOp::WeakRaw),
        2 => s().prop_map(XOp::RawRound),
        1 => s().prop_map(XOp::IncDec),
        3 * consume => s().prop_map(XOp::TryUnwrap),
        consume => s().prop_map(XOp::GetMut),
        3 * consume => s().prop_map(XOp::MakeMut),
        2 => (s(), s()).prop_map(|(dst, src)| XOp::CloneFrom { dst, src }),
        2 => (s(), any::<bool>()).prop_map(|(spokes, back)| XOp::Hub { spokes, back }),
        4 => (any::<u8>(), any::<bool>()).prop_map(|(n, double)| XOp::Ring { n, double }),
        1 => Just(XOp::Audit),
    ]
    .boxed()
}

pub struct TypesKind;

impl Kind for TypesKind {
    type Case = TypesCase;
    fn strategy(id: &str, tier: Tier, _variant: u64) -> BoxedStrategy<TypesCase> {
        let n = if tier == Tier::Thorough { 60 } else { 40 };
        let panic_pct: u32 = match id {
            "C11" => 60,
            "C02" | "C03" | "C01" => 20,
            _ => 0,
        };
        (0u8..NTYPES, any::<u64>(), vec(xop_strategy(id), 1..n), vec(any::<u16>(), 1..4), (0u32..100, 0u8..12))
            .prop_map(move |(ty, layout_seed, xops, cleanup, (pp, pk))| {
                // C11: only the types that have a destructor are interesting
                let ty = if panic_pct >= 50 { [1u8, 5, 7, 10, 1, 5, 7, 10, 1, 5, 7, 10][(ty % 12) as usize] } else { ty };
                TypesCase { ty, layout_seed, xops, cleanup, panic_in: if pp < panic_pct { Some(pk) } else { None }, arena_seed: None }
            })
            .boxed()
    }
    fn run(id: &str, _tier: Tier, c: &TypesCase) -> CaseResult {
        let views = props::prop(id).map(|p| p.views).unwrap_or(0) | View::Crash.bit() | View::Mem.bit() | View::LibPanic.bit();
        let views = if std::env::var_os("CX_ALL_VIEWS").is_some() { u32::MAX & !(1 << 31) } else { views };
        NO_INJECT.store(usize::from(id == "C09"), Ordering::Relaxed);
        let run_once = |arena_seed: Option<u64>| {
            let mut cc = c.clone();
            if arena_seed.is_some() {
                cc.arena_seed = arena_seed;
            }
            exec::run_forked(views, crate::runner::CASE_TIMEOUT_S, move || body(&cc))
        };
        let mut r = run_once(None);
        if id == "C09" && (r.outcome == exec::Outcome::Pass || r.outcome == exec::Outcome::OtherView) {
            // the same history under two more heap layouts: outcome, tolerated
            // findings of other views and what each release destroyed must agree
            for k in 1..3u64 {
                let r2 = run_once(Some(c.layout_seed.wrapping_add(k.wrapping_mul(0xA24B_AED4_963E_E407))));
                if r2.outcome == exec::Outcome::Timeout || r2.outcome == exec::Outcome::Internal {
                    return r2;
                }
                if r2.outcome != r.outcome || r2.digest != r.digest || (r2.counters[exec::SOFT_COUNTER] > 0) != (r.counters[exec::SOFT_COUNTER] > 0) {
                    let mut v = if r2.outcome != exec::Outcome::Pass { r2.clone() } else { r.clone() };
                    v.outcome = exec::Outcome::Violation;
                    v.view = View::Layout as u32;
                    v.msg = format!("[layout-dependence] the same history on payload {} behaves differently under two heap layouts (outcomes {:?} / {:?}, digests {:#x} / {:#x}): {}", type_name(c.ty), r.outcome, r2.outcome, r.digest, r2.digest, v.msg);
                    return v;
                }
            }
            r.outcome = exec::Outcome::Pass;
        }
        r
    }
    fn kind_name() -> &'static str {
        "types"
    }
    fn compact(c: &TypesCase) -> String {
        let ops: Vec<String> = c.xops.iter().map(|o| format!("{:?}", o)).collect();
        format!("types: payload {} ; {}", type_name(c.ty), ops.join("; "))
    }
    fn sample_ok(c: &TypesCase) -> bool {
        c.xops.len() <= 24
    }
    fn label_names() -> Vec<String> {
        let mut v: Vec<String> = NAMES.iter().map(|s| s.to_string()).collect();
        while v.len() < 64 {
            v.push(String::new());
        }
        v
    }
    fn totals(c: &[u64]) -> serde_json::Value {
        serde_json::json!({"objects": c[20], "adoptions": c[22], "ops": c[23]})
    }
    fn assumptions() -> Vec<String> {
        vec![]
    }
}
