//! Per-property configuration: which oracle views decide it, what is
//! generated, what counts as non-trivial (DESIGN §4).

use crate::exec::View;
use crate::gen::GenCfg;
use crate::script::Mode;
use crate::world::{ctr, lab, Cfg};

#[derive(Clone, Copy, PartialEq, Eq, Debug)]
pub enum Tier {
    Quick,
    Thorough,
}

pub struct Prop {
    pub id: &'static str,
    pub views: u32,
    pub rule: &'static str,
    pub quick_cases: u64,
    pub thorough_cases: u64,
    /// number of layouts each script is executed under (C09)
    pub layouts_quick: u32,
    pub layouts_thorough: u32,
}

fn bit(l: u32) -> u64 {
    1u64 << l
}

pub const ALL: [&str; 16] = ["C01", "C02", "C03", "C04", "C05", "C06", "C07", "C08", "C09", "C10", "C11", "C12", "C13", "C14", "C15", "C16"];

pub fn prop(id: &str) -> Option<Prop> {
    let v = |views: &[View]| views.iter().fold(0u32, |a, v| a | v.bit());
    let p = match id {
        "C01" => Prop {
            id: "C01",
            views: v(&[View::Premature]),
            rule: "proptest-generated SAFE histories (shape prefix + random ops + cleanup in generated order), one fork per case; non-trivial = the history contains a collection (group or zero-count death of an object with records) after which an object that still has adoption records is held and used again; distinct = distinct script hash",
            quick_cases: 120_000,
            thorough_cases: 2_000_000,
            layouts_quick: 1,
            layouts_thorough: 1,
        },
        "C02" => Prop {
            id: "C02",
            views: v(&[View::Mem, View::LibPanic, View::Crash, View::Abort]),
            rule: "proptest-generated SAFE histories with Weak handles inside and outside values, executed on the guard-page arena with poisoned moved-out fields; non-trivial = a group of >=2 is collected and (a member has in-degree != out-degree, or a member is adopted >=2 times, or a self-adoption is involved, or a Weak to a member is used after the collection); distinct = distinct script hash",
            quick_cases: 120_000,
            thorough_cases: 2_000_000,
            layouts_quick: 1,
            layouts_thorough: 1,
        },
        "C03" => Prop {
            id: "C03",
            views: v(&[View::Orphan]),
            rule: "proptest-generated FULL and SAFE histories over rings, cliques, self-adoption, parallel edges, cycles with tails and cycles sharing members, every last-handle choice; rules A/B evaluated at every strong-handle drop (top-level or nested) on the model at that instant; non-trivial = a rule-A obligation with |closure|>=2 or a clone self-adoption was raised and discharged; distinct = distinct script hash",
            quick_cases: 120_000,
            thorough_cases: 2_000_000,
            layouts_quick: 1,
            layouts_thorough: 1,
        },
        "C04" => Prop {
            id: "C04",
            views: v(&[View::Leak]),
            rule: "proptest-generated FULL/SAFE histories with Weak handles, followed by a generated cleanup order; allocation accounting on the arena after every op and at the end; non-trivial = the final zero-heap check applied and (objects died through >=2 different teardown paths or a Weak outlived its object); distinct = distinct script hash",
            quick_cases: 120_000,
            thorough_cases: 2_000_000,
            layouts_quick: 1,
            layouts_thorough: 1,
        },
        "C05" => Prop {
            id: "C05",
            views: v(&[View::Weak]),
            rule: "proptest-generated SAFE histories, Weak ops interleaved with everything, Weak handles in roots and inside values, upgrades from inside destructors; non-trivial = a Weak to a collected-group member is queried after the collection or from inside a destructor of the same group; distinct = distinct script hash",
            quick_cases: 120_000,
            thorough_cases: 2_000_000,
            layouts_quick: 1,
            layouts_thorough: 1,
        },
        "C06" => Prop {
            id: "C06",
            views: v(&[View::Count]),
            rule: "proptest-generated SAFE histories; after every op strong_count/weak_count/ptr_eq/as_ptr of every accessible object are compared with the model's handle-instance ledger (also from inside destructors); non-trivial = counts were checked on an object that holds records after a collection of other objects; distinct = distinct script hash",
            quick_cases: 120_000,
            thorough_cases: 2_000_000,
            layouts_quick: 1,
            layouts_thorough: 1,
        },
        "C08" => Prop {
            id: "C08",
            views: v(&[View::Table]),
            rule: "proptest-generated SAFE histories (a quarter of the workers CONSUME, a quarter ELIDE with the known finding excluded); after every op the link table of every accessible object (hook H1) is compared with the adoption ledger implied by the calls; non-trivial = the history has an unadopt that hit zero or was unmatched, and a death of an object that had records in a surviving peer; distinct = distinct script hash",
            quick_cases: 120_000,
            thorough_cases: 2_000_000,
            layouts_quick: 1,
            layouts_thorough: 1,
        },
        "C09" => Prop {
            id: "C09",
            views: v(&[View::Layout]),
            rule: "proptest-generated FULL histories, each executed under K heap layouts (page gaps and in-page offsets of every allocation differ, hence FxHash values and table iteration orders); per-op destroyed sets and all observable counts must agree; non-trivial = a group of >=3 was collected and at least two layouts showed different link-table iteration orders; distinct = distinct script hash",
            quick_cases: 30_000,
            thorough_cases: 250_000,
            layouts_quick: 4,
            layouts_thorough: 16,
        },
        "C10" => Prop {
            id: "C10",
            views: v(&[View::Premature, View::Mem, View::Orphan, View::Leak, View::Weak, View::Count, View::LibPanic, View::Crash, View::Abort]),
            rule: "proptest-generated SAFE histories whose objects carry destructor scripts (clone/drop/store+adopt/unadopt/downgrade/upgrade on outsiders, upgrades of own Weaks, early drops of own handles, observations); non-trivial = a destructor action ran inside a group teardown and changed the model; distinct = distinct script hash",
            quick_cases: 120_000,
            thorough_cases: 2_000_000,
            layouts_quick: 1,
            layouts_thorough: 1,
        },
        "C11" => Prop {
            id: "C11",
            views: v(&[View::Premature, View::Mem, View::Weak, View::LibPanic, View::Crash, View::Abort, View::PanicSafe, View::Table, View::Count]),
            rule: "fault injection: proptest-generated SAFE histories (a quarter of the workers: CONSUME, a quarter: ELIDE with the known finding excluded) with one armed panic per op inside payload destructors, op run under catch_unwind, history continues afterwards, counts and link tables of everything still held audited after every op; non-trivial = the panic hit a member of a group of >=2 that was not last in destruction order; distinct = distinct script hash",
            quick_cases: 120_000,
            thorough_cases: 2_000_000,
            layouts_quick: 1,
            layouts_thorough: 1,
        },
        "C12" => Prop {
            id: "C12",
            views: v(&[View::Table, View::Mem, View::Consume, View::Leak, View::LibPanic, View::Crash, View::Abort, View::Premature]),
            rule: "proptest-generated CONSUME histories: adoption graphs, then try_unwrap/make_mut/get_mut/raw round trips/inc/dec on members with records, then arbitrary ops on the former peers; non-trivial = a consuming call succeeded on an object that had adoption records; distinct = distinct script hash",
            quick_cases: 120_000,
            thorough_cases: 2_000_000,
            layouts_quick: 1,
            layouts_thorough: 1,
        },
        "C13" => Prop {
            id: "C13",
            views: v(&[View::Premature, View::Mem, View::LibPanic, View::Crash, View::Abort]),
            rule: "proptest-generated ELIDE histories: recorded handles removed without unadopt and dropped or kept, then arbitrary history; cases matching the known-finding signature end before the drop and are excluded (counted); non-trivial = an elided unadopt happened and a later collection or death purged a stale record; distinct = distinct script hash",
            quick_cases: 120_000,
            thorough_cases: 2_000_000,
            layouts_quick: 1,
            layouts_thorough: 1,
        },
        "C14" => Prop {
            id: "C14",
            views: v(&[View::Cost]),
            rule: "proptest-generated NOADOPT and SAFE histories; every clone, and every drop of a handle to an object whose table snapshot is empty, is bracketed by trace and allocation counters; non-trivial = such a drop happened on an object that previously had records, or while other objects had records; distinct = distinct script hash",
            quick_cases: 120_000,
            thorough_cases: 2_000_000,
            layouts_quick: 1,
            layouts_thorough: 1,
        },
        "C16" => Prop {
            id: "C16",
            views: v(&[View::Abort]),
            rule: "proptest-generated SAFE histories whose destructors clone or drop handles stored in the dying value; the child must die by SIGILL/SIGABRT/SIGTRAP exactly when the target is already destroyed; non-trivial = a clone of a handle to a destroyed peer was attempted (both sentinel states counted); distinct = distinct script hash",
            quick_cases: 120_000,
            thorough_cases: 1_500_000,
            layouts_quick: 1,
            layouts_thorough: 1,
        },
        "C07" => Prop {
            id: "C07",
            views: v(&[View::Diff, View::Crash, View::Abort, View::LibPanic]),
            rule: "proptest-generated straight-line programs (no adoption) over the API shared with std::rc (construction x6, clone/drop, Weak API, raw round trips for Rc and Weak, inc/dec, try_unwrap, get_mut, make_mut, comparisons, Hash, Display/Debug/Pointer, Borrow/AsRef, values owning strong and Weak handles incl. leaking cycles), each interpreted over cactusref and over std::rc; observation traces and ordered destructor logs must be equal; non-trivial = a value with nested handles was destroyed, a Weak was observed after death, and try_unwrap/make_mut/raw round trip took its interesting branch; distinct = distinct program hash",
            quick_cases: 60_000,
            thorough_cases: 1_000_000,
            layouts_quick: 1,
            layouts_thorough: 1,
        },
        "C15" => Prop {
            id: "C15",
            views: v(&[View::Scale, View::Crash, View::Abort, View::LibPanic]),
            rule: "proptest-generated size/shape parameters (ring, ring+chords, clique, ring with self-adoptions; N log-uniform up to 20k quick / 300k thorough, clique up to 120 / 400); graph built in O(N+E), orphaned by one final drop on a 128 KiB stack; oracle: all N destroyed, tables scanned <= 8N+8, worklist pops <= 8(N+E)+8 summed over every trace started by that drop; non-trivial = N >= 1000 (clique: n >= 40); distinct = distinct parameter hash",
            quick_cases: 1_600,
            thorough_cases: 4_000,
            layouts_quick: 1,
            layouts_thorough: 1,
        },
        _ => return None,
    };
    Some(p)
}

pub fn gen_cfg(id: &str, tier: Tier, variant: u64) -> GenCfg {
    let big = tier == Tier::Thorough;
    let ops = if big { 90 } else { 36 };
    let mut g = match id {
        // make_mut / decrement_strong_count / from_raw+drop also give up handles:
        // a quarter of the C03 workers include the handle-consuming ops
        "C03" if variant % 4 == 3 => {
            let mut g = GenCfg::new(Mode::Consume, ops);
            g.weights.consume = 2;
            g
        }
        // objects also stop existing through try_unwrap / make_mut: a quarter of
        // the C08 workers include the handle-consuming ops
        "C02" if variant % 4 == 1 => {
            let mut g = GenCfg::new(Mode::Consume, ops);
            g.weights.consume = 2;
            g
        }
        "C01" | "C04" | "C05" | "C06" | "C08" if variant % 4 == 3 => {
            let mut g = GenCfg::new(Mode::Consume, ops);
            g.weights.consume = 2;
            g
        }
        // memory accounting also when handles were given up without unadopt and
        // allocations are given up through try_unwrap / make_mut
        "C04" if variant % 4 == 2 => {
            let mut g = GenCfg::new(Mode::Elide, ops);
            g.weights.remove = 12;
            g.weights.consume = 2;
            g.weights.unique_root = 4;
            g
        }
        // ELIDE histories whose stale records have all been purged again are
        // exact: the orphan obligation is checked there too
        "C03" if variant % 4 == 2 => {
            let mut g = GenCfg::new(Mode::Elide, ops);
            g.weights.remove = 12;
            g
        }
        // a panicking destructor must not stop the rest of an orphaned group from
        // being destroyed before the drop "returns" (by unwinding)
        "C03" if variant % 4 == 1 => {
            let mut g = GenCfg::new(Mode::Safe, ops);
            g.dact_pct = 40;
            g.dact_panic = true;
            g
        }
        "C03" | "C04" => GenCfg::new(if variant % 2 == 0 { Mode::Full } else { Mode::Safe }, ops),
        // fully recorded histories that also give allocations up through
        // try_unwrap / make_mut (world_cfg allows the consuming ops for C09)
        "C09" if variant % 4 == 3 => {
            let mut g = GenCfg::new(Mode::Full, ops);
            g.weights.consume = 2;
            g.weights.unique_root = 3;
            g.weights.adopt_slot = 8;
            g
        }
        "C09" => GenCfg::new(Mode::Full, ops),
        // elided unadopt combined with try_unwrap / make_mut (both give an
        // allocation up without going through Drop)
        "C13" | "C12" if variant % 4 == 2 => {
            let mut g = GenCfg::new(Mode::Elide, ops);
            g.weights.consume = 2;
            g.weights.remove = 14;
            g.weights.strip = 6;
            g.weights.unique_root = 5;
            g
        }
        // a fresh allocation made by make_mut, or an object whose partners were
        // unwrapped, has no recorded adoption either
        // records that were purged by a peer's death (also after an elided unadopt)
        // leave the survivor without recorded adoptions too
        "C14" if variant % 4 == 1 => {
            let mut g = GenCfg::new(Mode::Elide, ops);
            g.weights.remove = 12;
            g
        }
        "C14" if variant % 4 == 3 => {
            let mut g = GenCfg::new(Mode::Consume, ops);
            g.weights.consume = 2;
            g
        }
        // a teardown can also be entered through make_mut / decrement_strong_count
        "C11" | "C10" if variant % 4 == 3 => {
            let mut g = GenCfg::new(Mode::Consume, ops);
            g.weights.consume = 2;
            g.weights.unique_root = 3;
            g
        }
        // peers whose handles were released without unadopt (over-adopted members)
        // survivors that gave up a recorded handle without unadopt: their tables
        // must be purged of a dying adoptee even if its destructor panics
        "C11" if variant % 4 == 2 => {
            let mut g = GenCfg::new(Mode::Elide, ops);
            g.weights.remove = 12;
            g
        }
        // bookkeeping must stay exact (records of a destroyed object disappear
        // from every peer) also when handles were given up without unadopt
        // counts stay exact (handles that exist, not records) when unadopt is elided
        "C06" if variant % 4 == 2 => {
            let mut g = GenCfg::new(Mode::Elide, ops);
            g.weights.remove = 12;
            g
        }
        "C08" if variant % 4 == 2 => {
            let mut g = GenCfg::new(Mode::Elide, ops);
            g.weights.remove = 12;
            // an allocation can also be given up through try_unwrap / make_mut
            g.weights.consume = 1;
            g.weights.unique_root = 3;
            g
        }
        "C16" if variant % 4 == 2 => {
            let mut g = GenCfg::new(Mode::Elide, ops);
            g.weights.remove = 12;
            g.weights.strip = 4;
            g
        }
        "C13" => GenCfg::new(Mode::Elide, ops),
        // C02 is stated for "any history"; a quarter of the workers explore the
        // ELIDE domain (elided unadopt is documented as safe), with the known
        // finding D4 excluded by construction
        "C02" if variant % 4 == 3 => GenCfg::new(Mode::Elide, ops),
        "C12" => GenCfg::new(Mode::Consume, ops),
        "C14" => GenCfg::new(if variant % 3 == 0 { Mode::NoAdopt } else { Mode::Safe }, ops),
        _ => GenCfg::new(Mode::Safe, ops),
    };
    if big {
        g.max_prefix_objs = 7;
    }
    match id {
        "C02" | "C05" | "C04" => {
            g.weights.downgrade = 9;
            g.weights.store_weak = 6;
            g.weights.upgrade = 7;
            g.weights.drop_weak = 5;
        }
        _ => {}
    }
    match id {
        "C05" => {
            g.dact_pct = 35;
            g.dact_ops = false;
        }
        "C06" => {
            g.dact_pct = 15;
        }
        // "any history": also what destructors do (downgrade / clone / drop of the
        // handles they own, nested collections)
        "C02" | "C04" => {
            g.dact_pct = 25;
        }
        "C10" => {
            g.dact_pct = 60;
            // a destructor may rescue a stored handle to an outsider by cloning it
            // out (a clone of a peer dying with it must abort: C16, ends the case)
            g.dact_clone_own = true;
            g.dact_clone_own_weight = 3;
        }
        "C11" => {
            g.dact_pct = 60;
            g.dact_panic = true;
        }
        "C16" => {
            g.dact_pct = 70;
            g.dact_clone_own = true;
            g.dact_ops = false;
        }
        "C12" => {
            g.weights.consume = 3;
            g.weights.unique_root = 5;
            // action scripts: run by destructors and, in a quarter of the cases, by
            // the payload's Clone inside make_mut
            g.dact_pct = 25;
        }
        "C14" => {
            g.weights.unadopt = 12;
            g.weights.remove = 12;
            g.adopt_pct = 60;
        }
        "C13" => {
            g.weights.remove = 16;
        }
        "C08" => {
            g.weights.unadopt = 10;
            g.weights.adopt_slot = 8;
        }
        _ => {}
    }
    g
}

pub fn world_cfg(id: &str, mode: Mode) -> Cfg {
    Cfg {
        mode,
        audit_tables: matches!(id, "C08" | "C12" | "C09" | "C13" | "C11"),
        audit_leaks: matches!(id, "C04" | "C10" | "C12"),
        cost_checks: id == "C14",
        exclude_known: mode == Mode::Elide && std::env::var_os("CX_NO_KF").is_none(),
        digest: id == "C09",
        strict_loopback: false,
        shallow_clone: false,
        clone_panics: 0,
        slot_consume: true,
        dtor_unwrap: false,
        dtor_stash: false,
        allow_consume: id == "C09",
        clone_reentrant: false,
        default_ctor: 0,
    }
}

pub fn nontrivial(id: &str, labels: u64, c: &[u64]) -> bool {
    let has = |l: u32| labels & bit(l) != 0;
    match id {
        "C01" => (has(lab::GROUP2) || has(lab::RULEB_REC)) && has(lab::SURVIVOR_USED),
        "C02" => has(lab::GROUP2) && (has(lab::INOUT_NEQ) || has(lab::MULTI_ADOPTED) || has(lab::RULEA_SELF) || has(lab::WEAK_AFTER)),
        "C03" => has(lab::RULEA_OBLIG2) || has(lab::RULEA_SELF),
        "C04" => has(lab::CLEANUP_ZERO) && (has(lab::MULTI_PATH) || has(lab::WEAK_OUTLIVED)),
        "C05" => (has(lab::GROUP2) && has(lab::WEAK_AFTER)) || has(lab::WEAK_INSIDE),
        "C06" => has(lab::COUNTS_AFTER_COLLECT),
        "C08" => (has(lab::UNADOPT_ZERO) || has(lab::UNADOPT_UNMATCHED)) && has(lab::DEATH_PEER_RECORDS),
        "C09" => has(lab::GROUP3),
        "C10" => has(lab::DACT_IN_GROUP) && has(lab::DACT_CHANGED_MODEL),
        "C11" => has(lab::PANIC_NOT_LAST),
        "C12" => has(lab::CONSUME_LINKED),
        "C13" => has(lab::ELIDED) && (has(lab::STALE_PURGED_BY_DEATH) || has(lab::GROUP2)),
        "C14" => has(lab::EMPTY_DROP_HISTORY) || has(lab::EMPTY_DROP_OTHERS_REC),
        "C16" => has(lab::DEAD_CLONE),
        _ => c[ctr::OPS] > 0,
    }
}
