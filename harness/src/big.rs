//! Large-scale semantic cases: the same oracles as the script-based checks
//! (nothing held is destroyed, orphaned groups are destroyed in full, Weak
//! handles observe death exactly, counts are exact, cloning a dead handle
//! aborts) applied to groups of tens to hundreds of thousands of objects, where
//! the per-op auditing interpreter would be quadratic.  They exist because a
//! regression may only show beyond a size threshold (inline buffers, batched
//! teardown, "optimised" paths for big groups).
//!
//! A case is a ring of n objects (optionally doubly linked, with chords) plus
//! an adopted acyclic tail of m objects hanging off the ring, built in O(n+m)
//! with every stored handle adopted; a few outside strong handles (`keep`),
//! outside Weak handles (`weaks`) and optionally one destructor that clones a
//! stored handle (`clone_at`).  Every drop that may collect runs on a thread
//! with a 128 KiB stack.

use crate::arena;
use crate::exec::{self, shared, violate, violate_soft, CaseResult, Phase, View};
use crate::props::{self, Tier};
use crate::runner::Kind;
use cactusref::{Adopt, Rc, Weak};
use proptest::collection::vec;
use proptest::prelude::*;
use serde::{Deserialize, Serialize};
use std::cell::{Cell, RefCell};
use std::sync::atomic::{AtomicUsize, Ordering};

static DESTROYED: AtomicUsize = AtomicUsize::new(0);
static CORRUPT: AtomicUsize = AtomicUsize::new(0);
const CANARY: u64 = 0xB16C_A5E0_0000_0000;
const CAP: usize = 8;

static SALT: AtomicUsize = AtomicUsize::new(0);
static PANIC_NODE: AtomicUsize = AtomicUsize::new(usize::MAX);
static PANICKED: AtomicUsize = AtomicUsize::new(0);

/// Larger than 1 KiB on purpose (the script payload is small): code paths that
/// depend on `size_of::<T>()` are exercised by one of the two.
pub struct BNode {
    pad: [u64; 136],
    id: u32,
    canary: u64,
    clone_on_drop: Cell<bool>,
    next: RefCell<Vec<Rc<BNode>>>,
}

impl Drop for BNode {
    fn drop(&mut self) {
        DESTROYED.fetch_add(1, Ordering::Relaxed);
        if self.canary != CANARY ^ self.id as u64 || self.pad[0] != self.id as u64 || self.pad[135] != self.id as u64 {
            CORRUPT.fetch_add(1, Ordering::Relaxed);
        }
        if PANIC_NODE.load(Ordering::Relaxed) == self.id as usize && !std::thread::panicking() {
            PANIC_NODE.store(usize::MAX, Ordering::Relaxed);
            PANICKED.fetch_add(1, Ordering::Relaxed);
            std::panic::panic_any(crate::interp::Injected);
        }
        if self.clone_on_drop.get() {
            let v = self.next.borrow();
            if let Some(h) = v.first() {
                // C16: the peer is a member of the group being destroyed
                let sh = shared();
                sh.expect_abort = 1;
                let c = Rc::clone(h);
                sh.after_abort = 1;
                std::mem::forget(c);
            }
        }
    }
}

#[derive(Clone, Debug, PartialEq, Eq, Serialize, Deserialize)]
pub struct BigCase {
    /// ring size selector, log-uniform on [20, max]
    pub size: u16,
    /// tail length selector (0 = no tail), up to half the ring size
    pub tail: u16,
    pub chords: Vec<(u32, u32)>,
    /// also adopt i -> i-1 (doubly linked ring)
    pub double: bool,
    /// ring nodes that get one extra outside strong handle each
    pub keep: Vec<u32>,
    /// nodes (ring or tail) that get an outside Weak
    pub weaks: Vec<u32>,
    /// node whose destructor clones its first stored handle
    pub clone_at: Option<u32>,
    pub order: u16,
    /// payload type without drop glue (`mem::needs_drop::<T>() == false`): the
    /// nodes own their handles in raw form (`Rc::into_raw`)
    #[serde(default)]
    pub nodrop: bool,
    /// node whose destructor panics once (the group must still be destroyed in
    /// full, nothing twice)
    #[serde(default)]
    pub panic_at: Option<u32>,
    /// every ring member also adopts object 0 (object 0 is adopted by n-1
    /// distinct objects: a link table with many backward entries)
    #[serde(default)]
    pub sink: bool,
    /// C12: an extra object owned and adopted by a ring member is taken back
    /// without unadopt and then unwrapped (nodrop payload only)
    #[serde(default)]
    pub unwrap_probe: bool,
    /// > 0: instead of one big group, a chain of `nest` two-member rings where a
    /// member of ring i holds the only (unrecorded) outside handle to ring i+1:
    /// collecting ring 0 nests `nest` collections inside each other
    #[serde(default)]
    pub nest: u16,
    /// sole-holder sweep: the group's only outside handle is moved to every
    /// member in turn (a stride of them for big groups) and, each time, a second
    /// handle to object 0 is made and dropped again: a trace from object 0 (and
    /// one from the previous holder) runs for every position of the sole outside
    /// handle.  Nothing may ever be destroyed.
    #[serde(default)]
    pub sweep: bool,
    /// dense group: a complete adoption digraph on n objects (n*n records for n
    /// objects: work lists and tables far larger than the object count)
    #[serde(default)]
    pub dense: bool,
}

pub fn sizes(c: &BigCase, tier: Tier) -> (usize, usize) {
    let mx: f64 = if tier == Tier::Thorough { 120_000.0 } else { 8_000.0 };
    let f = c.size as f64 / 65535.0;
    let n = ((20.0f64.ln() + f * (mx.ln() - 20.0f64.ln())).exp().round() as usize).max(3);
    let m = if c.tail < 0x6000 { 0 } else { ((c.tail as usize - 0x6000) * n) / (2 * 0xA000) };
    (n, m)
}

struct Built {
    h0: Option<Box<Rc<BNode>>>,
    slot: Vec<*const Rc<BNode>>,
    indeg: Vec<u32>,
    adoptions: usize,
    n: usize,
    m: usize,
}

unsafe fn build(c: &BigCase, n: usize, m: usize) -> Built {
    let total = n + m;
    let mk = |id: usize| {
        Rc::new(BNode { pad: [id as u64; 136], id: id as u32, canary: CANARY ^ id as u64, clone_on_drop: Cell::new(false), next: RefCell::new(Vec::with_capacity(CAP)) })
    };
    let h0: Box<Rc<BNode>> = Box::new(mk(0));
    let mut slot: Vec<*const Rc<BNode>> = vec![std::ptr::null(); total];
    let mut indeg = vec![0u32; total];
    slot[0] = &*h0 as *const Rc<BNode>;
    let mut adoptions = 0usize;
    // move-adopt: `owner` gets the only handle of a fresh node
    let mut chain = |owner: usize, id: usize, slot: &mut Vec<*const Rc<BNode>>| {
        let o: &Rc<BNode> = &*slot[owner];
        let h = mk(id);
        Rc::adopt_unchecked(o, &h);
        o.next.borrow_mut().push(h);
        let v = o.next.borrow();
        slot[id] = &v[v.len() - 1] as *const Rc<BNode>;
    };
    for i in 1..n {
        chain(i - 1, i, &mut slot);
        indeg[i] += 1;
        adoptions += 1;
    }
    let tail_at = n / 2;
    for k in 0..m {
        let owner = if k == 0 { tail_at } else { n + k - 1 };
        chain(owner, n + k, &mut slot);
        indeg[n + k] += 1;
        adoptions += 1;
    }
    let mut edge = |a: usize, b: usize| {
        let ha: &Rc<BNode> = &*slot[a];
        let hb: &Rc<BNode> = &*slot[b];
        if ha.next.borrow().len() >= CAP {
            return;
        }
        let cl = Rc::clone(hb);
        Rc::adopt_unchecked(ha, &cl);
        ha.next.borrow_mut().push(cl);
        indeg[b] += 1;
        adoptions += 1;
    };
    edge(n - 1, 0);
    if c.double {
        for i in 1..n {
            edge(i, i - 1);
        }
        edge(0, n - 1);
    }
    for &(a, b) in c.chords.iter().take(8) {
        // chords stay inside the ring (a tail must remain acyclic)
        edge(a as usize % n, b as usize % n);
    }
    if c.sink {
        for i in 1..n {
            edge(i, 0);
        }
    }
    Built { h0: Some(h0), slot, indeg, adoptions, n, m }
}

struct SendBox(Option<Rc<BNode>>);
unsafe impl Send for SendBox {}

thread_local! {
    /// a handle parked in a thread-local of the dropping thread: it is released by
    /// the thread-local's destructor while the thread shuts down
    static TLS_SLOT: RefCell<Option<Rc<BNode>>> = const { RefCell::new(None) };
}
static TLS_MODE: std::sync::atomic::AtomicBool = std::sync::atomic::AtomicBool::new(false);

/// Drop `h` on a thread with a 128 KiB stack; returns false if the drop panicked.
/// In TLS mode the handle is parked in a thread-local first (registered before
/// the thread's first collection) and dropped by thread shutdown.
fn drop_small_stack(h: Rc<BNode>) -> bool {
    let b = std::sync::Mutex::new(SendBox(Some(h)));
    let sh = shared();
    let prev = sh.phase;
    sh.phase = Phase::Lib as u32;
    let tls = TLS_MODE.load(Ordering::Relaxed);
    let t = std::thread::Builder::new()
        .stack_size(128 * 1024)
        .spawn(move || {
            let h = b.lock().unwrap().0.take();
            if tls {
                TLS_SLOT.with(|s| *s.borrow_mut() = h);
                // a first collection on this thread (a self-adopting Rc<u8> whose
                // stored handle is owned in raw form), after the slot exists
                let x = Rc::new(0u8);
                let c = Rc::clone(&x);
                unsafe { Rc::adopt_unchecked(&x, &c) };
                let _owned_by_x = Rc::into_raw(c);
                drop(x);
            } else {
                drop(h);
            }
        })
        .expect("spawn");
    let ok = t.join().is_ok();
    sh.phase = prev;
    ok
}

pub const L_TAIL: u32 = 0;
pub const L_KEEP: u32 = 1;
pub const L_WEAK: u32 = 2;
pub const L_CLONE: u32 = 3;
pub const L_DOUBLE: u32 = 4;
pub const L_GT128: u32 = 5;
pub const L_GT4096: u32 = 6;
pub const L_GT16: u32 = 7;
pub const L_TAIL_GT1000: u32 = 8;
pub const L_NODROP: u32 = 9;
pub const L_PANIC: u32 = 10;
pub const L_SINK: u32 = 11;
pub const L_UNWRAP: u32 = 12;
pub const L_HUB_EMPTIED: u32 = 13;
pub const L_NESTED: u32 = 14;
pub const L_NEST_GT64: u32 = 15;
pub const L_SWEEP: u32 = 16;
pub const L_SWEEP_ALL: u32 = 17;
pub const L_NEST_GT1024: u32 = 18;
pub const L_DENSE: u32 = 19;
pub const L_DENSE_GT100K: u32 = 20;
pub const L_HUB_GT16K: u32 = 21;
pub const L_TLS: u32 = 22;
pub const NAMES: [&str; 23] = ["adopted_tail", "outside_handles_kept", "outside_weaks", "destructor_clones_peer", "doubly_linked", "group>128", "group>4096", "group>16", "tail>1000", "payload_without_drop_glue", "destructor_panics", "object_adopted_by_every_member", "unwrap_after_taking_back_without_unadopt", "hub_fully_unadopted_again", "nested_collections_chain", "nesting_depth>64", "sole_holder_sweep", "sole_holder_sweep_every_member", "nesting_depth>1024", "complete_digraph", "records>100000", "emptied_hub>16384_adoptees", "dropped_by_thread_local_destructor_at_thread_exit"];

fn body(id: &str, c: &BigCase, tier: Tier) {
    let sh = shared();
    arena::st().count_only = true;
    // a quarter of the cases without a panicking destructor: handles are dropped
    // by thread shutdown (thread-local destructor)
    TLS_MODE.store((c.order >> 13) & 3 == 1 && c.panic_at.is_none(), Ordering::Relaxed);
    if TLS_MODE.load(Ordering::Relaxed) {
        sh.labels |= 1 << L_TLS;
    }
    // a third of the cases run with a sink logger (Trace / Debug / Info)
    exec::set_log_level_sel(match (c.order >> 9) % 9 { 0 => 1, 1 => 3, 2 => 5, _ => 0 });
    let (n, m) = sizes(c, tier);
    let total = n + m;
    // heap layout salt (C09): shift every later allocation
    let salt = SALT.load(Ordering::Relaxed);
    for k in 0..salt {
        std::mem::forget(vec![0u8; 24 + 40 * ((k * 7 + salt) % 13)]);
    }
    if id == "C14" {
        return body_hub_emptied(c, tier);
    }
    if c.nest > 0 {
        return body_nested(c, tier);
    }
    if c.sweep {
        return body_sweep(c, tier);
    }
    if c.dense {
        return body_dense(id, c, tier);
    }
    let mut b = unsafe { build(c, n, m) };
    sh.counters[20] = total as u64;
    sh.counters[22] = b.adoptions as u64;
    DESTROYED.store(0, Ordering::Relaxed);
    // outside handles
    let mut kept: Vec<(usize, Rc<BNode>)> = vec![];
    for &k in c.keep.iter().take(3) {
        let i = k as usize % n;
        kept.push((i, Rc::clone(unsafe { &*b.slot[i] })));
    }
    let mut weaks: Vec<(usize, Weak<BNode>)> = vec![];
    for &k in c.weaks.iter().take(3) {
        let i = k as usize % total;
        weaks.push((i, Rc::downgrade(unsafe { &*b.slot[i] })));
    }
    let clone_node = if kept.is_empty() { c.clone_at.map(|k| k as usize % total) } else { None };
    if let Some(i) = clone_node {
        unsafe { &*b.slot[i] }.clone_on_drop.set(true);
    }
    if clone_node.is_none() {
        if let Some(k) = c.panic_at {
            PANIC_NODE.store(k as usize % total, Ordering::Relaxed);
        }
    }
    let kept_on = |i: usize, kept: &Vec<(usize, Rc<BNode>)>| kept.iter().filter(|(k, _)| *k == i).count();
    let mut l = 0u64;
    if m > 0 {
        l |= 1 << L_TAIL;
    }
    if m > 1000 {
        l |= 1 << L_TAIL_GT1000;
    }
    if !kept.is_empty() {
        l |= 1 << L_KEEP;
    }
    if !weaks.is_empty() {
        l |= 1 << L_WEAK;
    }
    if clone_node.is_some() {
        l |= 1 << L_CLONE;
    }
    if c.double {
        l |= 1 << L_DOUBLE;
    }
    if total > 16 {
        l |= 1 << L_GT16;
    }
    if total > 128 {
        l |= 1 << L_GT128;
    }
    if total > 4096 {
        l |= 1 << L_GT4096;
    }
    if clone_node.is_none() && c.panic_at.is_some() {
        l |= 1 << L_PANIC;
    }
    if c.sink {
        l |= 1 << L_SINK;
    }
    sh.labels |= l;
    // C06 before anything is dropped
    for (i, h) in &kept {
        let want = b.indeg[*i] as usize + kept_on(*i, &kept) + usize::from(*i == 0);
        let got = Rc::strong_count(h);
        if got != want {
            violate_soft(View::Count, &format!("object {} of a group of {}: strong_count={} but {} handles exist", i, total, got, want));
        }
    }
    // the final drop of the program's handle to object 0
    exec::set_msg(&format!("drop of the handle to object 0 of a ring of {} with a tail of {} ({} adoptions) on a 128 KiB stack", n, m, b.adoptions));
    sh.op = 1;
    cactusref::__verif::reset();
    let h0 = *b.h0.take().unwrap();
    let expected_panic = |ok: bool| {
        let fired = PANICKED.swap(0, Ordering::Relaxed);
        if !ok && fired == 0 {
            violate(View::LibPanic, "the drop panicked");
        }
        if ok && fired != 0 {
            violate(View::PanicSafe, "a destructor panicked but the panic did not reach the caller of drop");
        }
    };
    expected_panic(drop_small_stack(h0));
    if clone_node.is_some() && kept.is_empty() {
        // a member's destructor cloned a handle to a peer of its dying group and survived
        if sh.after_abort == 1 {
            violate(View::Abort, &format!("group of {}: a destructor cloned a handle to a peer that was being destroyed with it and the clone returned normally", total));
        }
    }
    let check_counters = |what: &str| {
        let cn = cactusref::__verif::counters();
        if cn[2] > 8 * total + 8 || cn[1] > 8 * (total + b.adoptions) + 8 {
            violate_soft(
                View::Scale,
                &format!("{}: tracing a group of {} objects / {} adoptions scanned {} tables and popped {} items over {} trace(s)", what, total, b.adoptions, cn[2], cn[1], cn[0]),
            );
        }
    };
    check_counters("final drop");
    let d = DESTROYED.load(Ordering::Relaxed);
    if CORRUPT.load(Ordering::Relaxed) != 0 {
        violate(View::Mem, "a destructor ran on a corrupted value");
    }
    if !kept.is_empty() {
        if d != 0 {
            violate(
                View::Premature,
                &format!("group of {} objects: {} were destroyed by dropping the handle to object 0 although outside handles to objects {:?} are still held", total, d, kept.iter().map(|k| k.0).collect::<Vec<_>>()),
            );
        }
        for (i, h) in &kept {
            sh.phase = Phase::HeldDeref as u32;
            let ok = h.id as usize == *i && h.canary == CANARY ^ *i as u64;
            sh.phase = 0;
            if !ok {
                violate(View::Premature, &format!("held handle to object {} no longer yields the original value", i));
            }
            let want = b.indeg[*i] as usize + kept_on(*i, &kept);
            let got = Rc::strong_count(h);
            if got != want {
                violate_soft(View::Count, &format!("object {} of a group of {} after the drop of another handle: strong_count={} but {} handles exist", i, total, got, want));
            }
        }
        for (i, w) in &weaks {
            sh.phase = Phase::WeakCall as u32;
            let up = w.upgrade();
            sh.phase = 0;
            match up {
                None => violate_soft(View::Weak, &format!("Weak::upgrade returned None for live object {} (group of {}, outside handles held)", i, total)),
                Some(h) => {
                    if h.id as usize != *i {
                        violate(View::Weak, "Weak::upgrade returned a handle to a different object");
                    }
                    // dropping the upgraded handle runs a trace over the whole group
                    expected_panic(drop_small_stack(h));
                    if DESTROYED.load(Ordering::Relaxed) != 0 {
                        violate(View::Premature, &format!("dropping an upgraded handle to object {} destroyed objects of a group that is still held", i));
                    }
                }
            }
        }
        // drop the outside handles one by one; the last one orphans the group
        let k = kept.len();
        let start = c.order as usize % k;
        let mut order: Vec<usize> = (0..k).map(|x| (x + start) % k).collect();
        order.reverse();
        let mut handles: Vec<Option<Rc<BNode>>> = kept.drain(..).map(|(_, h)| Some(h)).collect();
        for (step, idx) in order.iter().enumerate() {
            sh.op = 2 + step as u32;
            cactusref::__verif::reset();
            let h = handles[*idx].take().unwrap();
            expected_panic(drop_small_stack(h));
            let d = DESTROYED.load(Ordering::Relaxed);
            if step + 1 < k && d != 0 {
                violate(View::Premature, &format!("group of {}: {} objects destroyed while {} outside handle(s) remain", total, d, k - step - 1));
            }
            check_counters("drop of an outside handle");
        }
    }
    let d = DESTROYED.load(Ordering::Relaxed);
    if d != total && !(clone_node.is_some()) {
        violate_soft(
            View::Orphan,
            &format!("ring of {} with an adopted tail of {}: every outside handle dropped, the group is orphaned, but only {} of {} objects were destroyed", n, m, d, total),
        );
        if id == "C15" {
            violate_soft(View::Scale, &format!("orphaned group of {} objects: only {} destroyed", total, d));
        }
    }
    if d > total {
        violate(View::Mem, &format!("{} destructor runs for {} objects", d, total));
    }
    sh.counters[27] = d as u64 + 1;
    for (i, w) in &weaks {
        if d == total {
            sh.phase = Phase::WeakCall as u32;
            let (up, sc, wc) = (w.upgrade().is_some(), w.strong_count(), w.weak_count());
            sh.phase = 0;
            if up || sc != 0 || wc != 0 {
                violate_soft(View::Weak, &format!("Weak to destroyed object {} of a group of {}: upgrade is_some={} strong_count={} weak_count={}", i, total, up, sc, wc));
            }
        }
    }
    sh.phase = Phase::WeakCall as u32;
    drop(weaks);
    sh.phase = 0;
}

// ---- payload without drop glue ------------------------------------------------

/// No `Drop` impl and no field with drop glue: `mem::needs_drop::<RNode>()` is
/// false.  The node owns strong handles to its successors in raw form.
pub struct RNode {
    id: u32,
    n_next: Cell<usize>,
    next: Cell<[*const RNode; 4]>,
}

impl RNode {
    fn push(&self, p: *const RNode) -> bool {
        let k = self.n_next.get();
        if k >= 4 {
            return false;
        }
        let mut a = self.next.get();
        a[k] = p;
        self.next.set(a);
        self.n_next.set(k + 1);
        true
    }
}

/// Run a library call with allocation counting on: everything the library
/// allocates must be released by the library.
fn trk<R>(f: impl FnOnce() -> R) -> R {
    let _t = arena::track_on();
    f()
}

fn body_nodrop(_id: &str, c: &BigCase, tier: Tier) {
    use std::mem::ManuallyDrop;
    assert!(!std::mem::needs_drop::<RNode>());
    let sh = shared();
    arena::st().count_only = true;
    let (n, m) = sizes(c, tier);
    // the nodrop scenario drops on the main thread; keep it moderate
    let (n, m) = (n.min(20_000), m.min(10_000));
    let total = n + m;
    sh.counters[20] = total as u64;
    let mut l = 1u64 << L_NODROP;
    if m > 0 {
        l |= 1 << L_TAIL;
    }
    if total > 16 {
        l |= 1 << L_GT16;
    }
    if total > 128 {
        l |= 1 << L_GT128;
    }
    if total > 4096 {
        l |= 1 << L_GT4096;
    }
    let live0 = arena::st().live;
    {
        let mk = |id: usize| trk(|| Rc::new(RNode { id: id as u32, n_next: Cell::new(0), next: Cell::new([std::ptr::null(); 4]) }));
        let borrow = |p: *const RNode| ManuallyDrop::new(unsafe { Rc::from_raw(p) });
        let h0 = mk(0);
        let mut slot: Vec<*const RNode> = vec![std::ptr::null(); total];
        slot[0] = Rc::as_ptr(&h0);
        let mut adoptions = 0usize;
        let mut chain = |owner: usize, id: usize, slot: &mut Vec<*const RNode>| {
            let o = borrow(slot[owner]);
            let h = mk(id);
            trk(|| unsafe { Rc::adopt_unchecked(&o, &h) });
            let p = Rc::into_raw(h);
            assert!(o.push(p));
            slot[id] = p;
        };
        for i in 1..n {
            chain(i - 1, i, &mut slot);
            adoptions += 1;
        }
        for k in 0..m {
            let owner = if k == 0 { n / 2 } else { n + k - 1 };
            chain(owner, n + k, &mut slot);
            adoptions += 1;
        }
        let mut edge = |a: usize, b: usize| {
            let ha = borrow(slot[a]);
            if ha.n_next.get() >= 4 {
                return;
            }
            let hb = borrow(slot[b]);
            let cl = trk(|| Rc::clone(&hb));
            trk(|| unsafe { Rc::adopt_unchecked(&ha, &cl) });
            ha.push(Rc::into_raw(cl));
            adoptions += 1;
        };
        edge(n - 1, 0);
        if c.double {
            for i in 1..n {
                edge(i, i - 1);
            }
        }
        for &(a, b) in c.chords.iter().take(8) {
            edge(a as usize % n, b as usize % n);
        }
        if c.sink {
            for i in 1..n {
                edge(i, 0);
            }
        }
        if c.unwrap_probe {
            // C12: member b owns and adopts an extra object a; the handle is taken
            // back without unadopt, then the sole handle of a is unwrapped
            l |= 1 << L_UNWRAP;
            let bi = (c.order as usize >> 1) % n;
            let hb = borrow(slot[bi]);
            if hb.n_next.get() < 4 {
                let a = mk(total);
                let a_addr = Rc::__verif_addr(&a);
                let a2 = trk(|| Rc::clone(&a));
                trk(|| unsafe { Rc::adopt_unchecked(&hb, &a2) });
                let k = hb.n_next.get();
                hb.push(Rc::into_raw(a2));
                // take it back (no unadopt) and give it up
                let mut arr = hb.next.get();
                let p = arr[k];
                arr[k] = std::ptr::null();
                hb.next.set(arr);
                hb.n_next.set(k);
                let back = unsafe { Rc::from_raw(p) };
                trk(|| drop(back));
                match trk(|| Rc::try_unwrap(a)) {
                    Ok(v) => {
                        let _ = v.id;
                    }
                    Err(_) => violate(View::Consume, "try_unwrap failed on the sole strong handle (payload without drop glue)"),
                }
                let snap = Rc::__verif_links(&hb);
                if snap.iter().any(|e| e.0 == a_addr && e.2 > 0) {
                    violate_soft(
                        View::Table,
                        &format!("payload without drop glue: after try_unwrap the former owner still has a link-table entry naming the given-up allocation: {:?}", snap.iter().filter(|e| e.0 == a_addr).collect::<Vec<_>>()),
                    );
                }
            }
        }
        sh.counters[22] = adoptions as u64;
        let mut kept: Vec<Rc<RNode>> = vec![];
        for &k in c.keep.iter().take(3) {
            let hb = borrow(slot[k as usize % n]);
            kept.push(trk(|| Rc::clone(&hb)));
        }
        if !kept.is_empty() {
            l |= 1 << L_KEEP;
        }
        // destruction is observed through Weak samples (there is no destructor)
        let step = (total / 24).max(1);
        let mut weaks: Vec<(usize, Weak<RNode>)> = vec![];
        for i in (0..total).step_by(step) {
            let hb = borrow(slot[i]);
            weaks.push((i, trk(|| Rc::downgrade(&hb))));
        }
        sh.labels |= l | (1 << L_WEAK);
        exec::set_msg(&format!("payload without drop glue: ring of {} + tail of {} ({} adoptions)", n, m, adoptions));
        sh.op = 1;
        sh.phase = Phase::Lib as u32;
        trk(|| drop(h0));
        sh.phase = 0;
        let alive = |weaks: &Vec<(usize, Weak<RNode>)>| -> usize {
            let mut a = 0;
            for (_, w) in weaks.iter() {
                if w.strong_count() > 0 {
                    a += 1;
                }
            }
            a
        };
        if !kept.is_empty() {
            let a = alive(&weaks);
            if a != weaks.len() {
                violate(View::Premature, &format!("group of {} (payload without drop glue): {} of {} sampled objects were destroyed although outside handles are held", total, weaks.len() - a, weaks.len()));
            }
            for h in &kept {
                if h.id as usize >= total {
                    violate(View::Premature, "held handle no longer yields the original value");
                }
            }
            let k = kept.len();
            for (step, h) in kept.drain(..).enumerate() {
                sh.op = 2 + step as u32;
                sh.phase = Phase::Lib as u32;
                trk(|| drop(h));
                sh.phase = 0;
                if step + 1 < k && alive(&weaks) != weaks.len() {
                    violate(View::Premature, &format!("group of {} (payload without drop glue): objects destroyed while {} outside handle(s) remain", total, k - step - 1));
                }
            }
        }
        let a = alive(&weaks);
        if a != 0 {
            violate_soft(View::Orphan, &format!("group of {} (payload without drop glue): every outside handle dropped but {} of {} sampled objects are still alive", total, a, weaks.len()));
        }
        for (i, w) in &weaks {
            sh.phase = Phase::WeakCall as u32;
            let up = trk(|| w.upgrade());
            sh.phase = 0;
            if a == 0 && up.is_some() {
                violate_soft(View::Weak, &format!("Weak::upgrade returned a handle to destroyed object {}", i));
            }
            if let Some(h) = up {
                trk(|| drop(h));
            }
        }
        sh.phase = Phase::WeakCall as u32;
        // element by element: the Vec's own buffer belongs to the harness
        for (_, w) in weaks.drain(..) {
            trk(|| drop(w));
        }
        sh.phase = 0;
        if a != 0 {
            return;
        }
    }
    // C04: everything the library allocated for this group is released
    let live = arena::st().live;
    if live != live0 {
        violate_soft(
            View::Leak,
            &format!("group of {} objects with a payload that has no drop glue: every object destroyed and every Weak dropped, but {} block(s) allocated by the library were never released", total, live.wrapping_sub(live0)),
        );
    }
}

/// Nested collections (C10 / C03): ring i = {a_i <-> b_i} (adopted both ways);
/// b_i also holds a plain, unrecorded handle to a_{i+1}, the only outside handle
/// of ring i+1.  Dropping the program's handle to a_0 collects ring 0, whose
/// values drop the handle to ring 1, and so on: `nest` collections nested inside
/// each other.  Everything must be destroyed before the outermost drop returns.
fn body_nested(c: &BigCase, _tier: Tier) {
    let sh = shared();
    let k = c.nest as usize;
    sh.counters[20] = 2 * k as u64;
    sh.labels |= (1 << L_NESTED) | (1 << L_GT16) | if k > 64 { 1 << L_NEST_GT64 } else { 0 } | if k > 1024 { 1 << L_NEST_GT1024 } else { 0 };
    DESTROYED.store(0, Ordering::Relaxed);
    let mk = |id: usize| {
        Rc::new(BNode { pad: [id as u64; 136], id: id as u32, canary: CANARY ^ id as u64, clone_on_drop: Cell::new(false), next: RefCell::new(Vec::with_capacity(4)) })
    };
    // an adoption-free bystander: every ring holds one plain handle to it (C06:
    // handles released by destructors deep inside nested collections are
    // released exactly once)
    let probe = mk(usize::MAX >> 40);
    // build from the innermost ring outwards
    let mut inner: Option<Rc<BNode>> = None;
    let mut weaks: Vec<Weak<BNode>> = vec![];
    for i in (0..k).rev() {
        let a = mk(2 * i);
        let b = mk(2 * i + 1);
        unsafe {
            Rc::adopt_unchecked(&a, &b);
        }
        let a2 = Rc::clone(&a);
        unsafe {
            Rc::adopt_unchecked(&b, &a2);
        }
        b.next.borrow_mut().push(a2);
        if let Some(h) = inner.take() {
            // plain handle, not adopted
            b.next.borrow_mut().push(h);
        }
        b.next.borrow_mut().push(Rc::clone(&probe));
        if c.weaks.len() > i % 4 {
            weaks.push(Rc::downgrade(&b));
        }
        a.next.borrow_mut().push(b);
        inner = Some(a);
    }
    let h0 = inner.take().unwrap();
    if Rc::strong_count(&probe) != k + 1 {
        violate_soft(View::Count, &format!("bystander object: strong_count={} but {} handles exist", Rc::strong_count(&probe), k + 1));
    }
    exec::set_msg(&format!("drop of the only outside handle of the first of {} chained two-member rings ({} nested collections)", k, k));
    sh.op = 1;
    sh.phase = Phase::Lib as u32;
    // nesting is recursion by nature (as with any chain of owned values): a
    // stack proportional to the depth is provided
    let b = std::sync::Mutex::new(SendBox(Some(h0)));
    let t = std::thread::Builder::new()
        .stack_size(8 * 1024 * 1024 + k * 16 * 1024)
        .spawn(move || {
            let h = b.lock().unwrap().0.take();
            drop(h);
        })
        .expect("spawn");
    let ok = t.join().is_ok();
    sh.phase = 0;
    if !ok {
        violate(View::LibPanic, "the drop panicked");
    }
    let d = DESTROYED.load(Ordering::Relaxed);
    if d != 2 * k {
        violate_soft(
            View::Orphan,
            &format!("{} chained two-member rings: the drop of the only outside handle destroyed {} of {} objects (ring {} and the rings behind it were orphaned by a destructor running inside {} nested collections and never collected)", k, d, 2 * k, d / 2, d / 2),
        );
    }
    // every destroyed ring released its handle to the bystander exactly once
    let want = 1 + (2 * k - d.min(2 * k)) / 2;
    let got = Rc::strong_count(&probe);
    if got != want {
        violate_soft(
            View::Count,
            &format!("bystander object after {} nested collections: strong_count={} but {} handle(s) exist ({} of {} ring members were destroyed, each destroyed ring held one)", k, got, want, d, 2 * k),
        );
    }
    if probe.canary != CANARY ^ (usize::MAX >> 40) as u64 {
        violate(View::Premature, "bystander object no longer yields its value");
    }
    for w in &weaks {
        if d == 2 * k && (w.upgrade().is_some() || w.strong_count() != 0) {
            violate_soft(View::Weak, "Weak to a member of a collected nested ring still reports it alive");
        }
    }
    drop(probe);
}

/// Dense group (C09 / C01 / C03): see `BigCase::dense`.
fn body_dense(id: &str, c: &BigCase, tier: Tier) {
    let sh = shared();
    let cap: f64 = if tier == Tier::Thorough { 1100.0 } else { 300.0 };
    let f = c.size as f64 / 65535.0;
    let n = ((4.0f64.ln() + f * (cap.ln() - 4.0f64.ln())).exp().round() as usize).max(3);
    // one dense case in twelve has about a million records whatever the tier
    // (C03, one layout per case: one in three)
    let n = if (c.order >> 5) % if id == "C03" { 3 } else { 12 } == 0 { 700 + (c.order as usize * 31) % 420 } else { n };
    DESTROYED.store(0, Ordering::Relaxed);
    let mk = |id: usize| {
        Rc::new(BNode { pad: [id as u64; 136], id: id as u32, canary: CANARY ^ id as u64, clone_on_drop: Cell::new(false), next: RefCell::new(Vec::with_capacity(n + 2)) })
    };
    // node i-1 owns the creation handle of node i; every other edge is a clone
    let h0 = mk(0);
    let mut slot: Vec<*const Rc<BNode>> = vec![std::ptr::null(); n];
    let mut adoptions = 0usize;
    for i in 1..n {
        let o: &Rc<BNode> = if i == 1 { &h0 } else { unsafe { &*slot[i - 1] } };
        let h = mk(i);
        unsafe { Rc::adopt_unchecked(o, &h) };
        o.next.borrow_mut().push(h);
        let v = o.next.borrow();
        slot[i] = &v[v.len() - 1] as *const Rc<BNode>;
        adoptions += 1;
    }
    let handle = |i: usize| -> &Rc<BNode> {
        if i == 0 {
            &h0
        } else {
            unsafe { &*slot[i] }
        }
    };
    let selfloops = c.double;
    for a in 0..n {
        for b in 0..n {
            if b == a + 1 || (a == b && !selfloops) {
                continue;
            }
            let (ha, hb) = (handle(a), handle(b));
            let cl = Rc::clone(hb);
            unsafe { Rc::adopt_unchecked(ha, &cl) };
            ha.next.borrow_mut().push(cl);
            adoptions += 1;
        }
    }
    sh.counters[20] = n as u64;
    sh.counters[22] = adoptions as u64;
    sh.labels |= (1 << L_DENSE) | if adoptions > 100_000 { 1 << L_DENSE_GT100K } else { 0 } | if n > 16 { 1 << L_GT16 } else { 0 } | if n > 128 { 1 << L_GT128 } else { 0 };
    let indeg = n - 1 + usize::from(selfloops);
    let kept: Option<(usize, Rc<BNode>)> = c.keep.first().map(|k| {
        let i = *k as usize % n;
        (i, Rc::clone(handle(i)))
    });
    let weaks: Vec<(usize, Weak<BNode>)> = c.weaks.iter().take(3).map(|k| (*k as usize % n, Rc::downgrade(handle(*k as usize % n)))).collect();
    let check_counters = |what: &str| {
        let cn = cactusref::__verif::counters();
        if cn[2] > 8 * n + 8 || cn[1] > 8 * (n + adoptions) + 8 {
            violate_soft(View::Scale, &format!("{}: tracing a complete digraph of {} objects / {} adoptions scanned {} tables and popped {} items over {} trace(s)", what, n, adoptions, cn[2], cn[1], cn[0]));
        }
    };
    exec::set_msg(&format!("complete adoption digraph on {} objects ({} adoptions): drop of the handle to object 0", n, adoptions));
    sh.op = 1;
    cactusref::__verif::reset();
    if !drop_small_stack(h0) {
        violate(View::LibPanic, "the drop panicked");
    }
    check_counters("drop of the handle to object 0");
    if let Some((i, h)) = kept {
        sh.labels |= 1 << L_KEEP;
        let d = DESTROYED.load(Ordering::Relaxed);
        if d != 0 {
            violate(View::Premature, &format!("complete digraph on {} objects: {} were destroyed although a handle to object {} is still held", n, d, i));
        }
        sh.phase = Phase::HeldDeref as u32;
        let ok = h.id as usize == i && h.canary == CANARY ^ i as u64;
        sh.phase = 0;
        if !ok {
            violate(View::Premature, "held handle no longer yields the original value");
        }
        let got = Rc::strong_count(&h);
        if got != indeg + 1 {
            violate_soft(View::Count, &format!("object {} of a complete digraph on {}: strong_count={} but {} handles exist", i, n, got, indeg + 1));
        }
        for (k, w) in &weaks {
            if w.strong_count() != indeg + usize::from(*k == i) {
                violate_soft(View::Weak, &format!("Weak to live object {} reports strong_count={}, {} handles exist", k, w.strong_count(), indeg + usize::from(*k == i)));
            }
        }
        sh.op = 2;
        exec::set_msg(&format!("complete adoption digraph on {} objects ({} adoptions): drop of the last outside handle (object {})", n, adoptions, i));
        cactusref::__verif::reset();
        if !drop_small_stack(h) {
            violate(View::LibPanic, "the drop panicked");
        }
        check_counters("drop of the last outside handle");
    }
    let d = DESTROYED.load(Ordering::Relaxed);
    if d != n {
        violate_soft(View::Orphan, &format!("complete adoption digraph on {} objects ({} adoptions): every outside handle dropped, the group is orphaned, but only {} objects were destroyed", n, adoptions, d));
    }
    if d > n {
        violate(View::Mem, &format!("{} destructor runs for {} objects", d, n));
    }
    sh.counters[27] = d as u64 + 1;
    for (k, w) in &weaks {
        if d == n && (w.upgrade().is_some() || w.strong_count() != 0 || w.weak_count() != 0) {
            violate_soft(View::Weak, &format!("Weak to destroyed object {} of a complete digraph still reports it alive", k));
        }
    }
    sh.phase = Phase::WeakCall as u32;
    drop(weaks);
    sh.phase = 0;
}

/// Sole-holder sweep (C01 / C06 / C09): see `BigCase::sweep`.
fn body_sweep(c: &BigCase, tier: Tier) {
    let sh = shared();
    let cap: f64 = if tier == Tier::Thorough { 3000.0 } else { 700.0 };
    let f = c.size as f64 / 65535.0;
    let n = ((3.0f64.ln() + f * (cap.ln() - 3.0f64.ln())).exp().round() as usize).max(3);
    let m = if c.tail < 0x6000 { 0 } else { ((c.tail as usize - 0x6000) * n) / (4 * 0xA000) };
    let total = n + m;
    let mut b = unsafe { build(c, n, m) };
    sh.counters[20] = total as u64;
    sh.counters[22] = b.adoptions as u64;
    DESTROYED.store(0, Ordering::Relaxed);
    let budget: usize = if tier == Tier::Thorough { 8_000_000 } else { 2_000_000 };
    let per = 2 * (total + b.adoptions);
    let positions = n.min((budget / per).max(8));
    let mut l = (1u64 << L_SWEEP) | if positions == n { 1 << L_SWEEP_ALL } else { 0 };
    if m > 0 {
        l |= 1 << L_TAIL;
    }
    if c.double {
        l |= 1 << L_DOUBLE;
    }
    if c.sink {
        l |= 1 << L_SINK;
    }
    if total > 16 {
        l |= 1 << L_GT16;
    }
    if total > 128 {
        l |= 1 << L_GT128;
    }
    sh.labels |= l | (1 << L_KEEP);
    let h0 = *b.h0.take().unwrap();
    let w0 = Rc::downgrade(&h0);
    let mut hold = h0;
    let mut hold_at = 0usize;
    let start = c.order as usize % n;
    let check_counters = |what: &str| {
        let cn = cactusref::__verif::counters();
        if cn[2] > 8 * total + 8 || cn[1] > 8 * (total + b.adoptions) + 8 {
            violate_soft(View::Scale, &format!("{}: tracing a group of {} objects / {} adoptions scanned {} tables and popped {} items over {} trace(s)", what, total, b.adoptions, cn[2], cn[1], cn[0]));
        }
    };
    for k in 0..positions {
        // positions == n: every ring member; else an even spread from `start`
        let j = (start + k * n / positions) % n;
        sh.op = 1 + k as u32;
        let nb = if j == 0 {
            match w0.upgrade() {
                Some(h) => h,
                None => violate(View::Weak, "Weak::upgrade returned None for object 0 of a group that is still held"),
            }
        } else {
            Rc::clone(unsafe { &*b.slot[j] })
        };
        let old = std::mem::replace(&mut hold, nb);
        exec::set_msg(&format!("ring of {} + tail of {} ({} adoptions): the only outside handle is on object {}; the handle on object {} is dropped", n, m, b.adoptions, j, hold_at));
        cactusref::__verif::reset();
        if !drop_small_stack(old) {
            violate(View::LibPanic, "the drop panicked");
        }
        let d = DESTROYED.load(Ordering::Relaxed);
        if d != 0 {
            violate(View::Premature, &format!("ring of {} + tail of {}: {} objects were destroyed by dropping a handle to object {} although a handle to object {} is still held", n, m, d, hold_at, j));
        }
        check_counters("drop of an outside handle");
        hold_at = j;
        // a second handle to object 0, dropped again: a trace from object 0
        // with the sole other outside handle on object j
        let a = match w0.upgrade() {
            Some(h) => h,
            None => violate(View::Weak, "Weak::upgrade returned None for object 0 of a group that is still held"),
        };
        exec::set_msg(&format!("ring of {} + tail of {} ({} adoptions): the only other outside handle is on object {}; a second handle to object 0 is dropped", n, m, b.adoptions, j));
        cactusref::__verif::reset();
        if !drop_small_stack(a) {
            violate(View::LibPanic, "the drop panicked");
        }
        let d = DESTROYED.load(Ordering::Relaxed);
        if d != 0 {
            violate(View::Premature, &format!("ring of {} + tail of {}: {} objects were destroyed by dropping a handle to object 0 although a handle to object {} is still held", n, m, d, j));
        }
        check_counters("drop of a second handle to object 0");
        sh.phase = Phase::HeldDeref as u32;
        let ok = hold.id as usize == j && hold.canary == CANARY ^ j as u64;
        sh.phase = 0;
        if !ok {
            violate(View::Premature, &format!("held handle to object {} no longer yields the original value", j));
        }
        let want = b.indeg[j] as usize + 1;
        let got = Rc::strong_count(&hold);
        if got != want {
            violate_soft(View::Count, &format!("object {} of a group of {}: strong_count={} but {} handles exist", j, total, got, want));
        }
    }
    sh.counters[21] = positions as u64;
    exec::set_msg(&format!("ring of {} + tail of {}: the last outside handle (on object {}) is dropped", n, m, hold_at));
    sh.op = 1_000_000;
    if !drop_small_stack(hold) {
        violate(View::LibPanic, "the drop panicked");
    }
    let d = DESTROYED.load(Ordering::Relaxed);
    if d != total {
        violate_soft(View::Orphan, &format!("ring of {} with an adopted tail of {}: every outside handle dropped, the group is orphaned, but only {} of {} objects were destroyed", n, m, d, total));
    }
    sh.counters[27] = d as u64 + 1;
    if d == total && (w0.upgrade().is_some() || w0.strong_count() != 0) {
        violate_soft(View::Weak, "Weak to object 0 of a collected group still reports it alive");
    }
    sh.phase = Phase::WeakCall as u32;
    drop(w0);
    sh.phase = 0;
}

/// C14 at scale: a hub that adopted N distinct objects and unadopted all of
/// them again has no recorded adoption: cloning and dropping a handle to it
/// must not trace, allocate or free.
fn body_hub_emptied(c: &BigCase, tier: Tier) {
    let sh = shared();
    let (n, _) = sizes(c, tier);
    // one case in eight: a hub whose table grew far beyond the other scenarios
    let n = if (c.order >> 4) % 8 == 0 { 20_000 + (c.order as usize * 13) % 50_000 } else { n.min(6000) };
    sh.counters[20] = n as u64 + 1;
    sh.labels |= (1 << L_HUB_EMPTIED) | (1 << L_GT16) | if n > 128 { 1 << L_GT128 } else { 0 } | if n > 16384 { 1 << L_HUB_GT16K } else { 0 };
    let mk = |id: usize| {
        Rc::new(BNode { pad: [id as u64; 136], id: id as u32, canary: CANARY ^ id as u64, clone_on_drop: Cell::new(false), next: RefCell::new(Vec::new()) })
    };
    let hub = mk(0);
    *hub.next.borrow_mut() = Vec::with_capacity(n + 1);
    let spokes: Vec<Rc<BNode>> = (1..=n).map(mk).collect();
    for s in &spokes {
        let cl = Rc::clone(s);
        unsafe { Rc::adopt_unchecked(&hub, &cl) };
        hub.next.borrow_mut().push(cl);
    }
    // optionally the spokes adopt the hub back (backward and forward entries)
    if c.double {
        for s in &spokes {
            let cl = Rc::clone(&hub);
            unsafe { Rc::adopt_unchecked(s, &cl) };
            s.next.borrow_mut().push(cl);
        }
    }
    // handles are parked and only dropped once the tables are empty again: a drop
    // of a handle to an object that still has links would run a trace each time
    let mut parked: Vec<Rc<BNode>> = Vec::with_capacity(2 * n + 2);
    if c.double {
        for s in &spokes {
            let h = s.next.borrow_mut().pop().unwrap();
            Rc::unadopt(s, &h);
            parked.push(h);
        }
    }
    loop {
        let Some(h) = hub.next.borrow_mut().pop() else { break };
        Rc::unadopt(&hub, &h);
        parked.push(h);
    }
    if !Rc::__verif_links(&hub).is_empty() {
        violate_soft(View::Table, "hub still has link-table entries after every adoption was unadopted");
        return;
    }
    // every parked handle points to an object that has no recorded adoption now
    // and stays alive: dropping them must be free (the very first such drop is
    // where a lazily shrinking table would show)
    {
        let st = arena::st();
        cactusref::__verif::reset();
        let (a0, f0) = (st.n_alloc, st.n_free);
        for h in parked.drain(..) {
            let _t = arena::track_on();
            drop(h);
        }
        let traces = cactusref::__verif::counters()[0];
        if st.n_alloc != a0 || st.n_free != f0 || traces != 0 {
            violate_soft(
                View::Cost,
                &format!("dropping non-final handles to objects without recorded adoptions (a former hub of {} adoptees and its former adoptees) performed {} allocation(s), {} free(s), {} trace(s)", n, st.n_alloc - a0, st.n_free - f0, traces),
            );
        }
    }
    drop(parked);
    sh.op = 1;
    exec::set_msg(&format!("clone / non-final drop of a handle to a hub that once had {} adoptions and none now", n));
    let st = arena::st();
    for round in 0..3 {
        cactusref::__verif::reset();
        let _t = arena::track_on();
        let (a0, f0) = (st.n_alloc, st.n_free);
        let cl = Rc::clone(&hub);
        let (a1, f1) = (st.n_alloc, st.n_free);
        drop(cl);
        let (a2, f2) = (st.n_alloc, st.n_free);
        drop(_t);
        let traces = cactusref::__verif::counters()[0];
        if a1 != a0 || f1 != f0 {
            violate_soft(View::Cost, &format!("cloning a handle to an object without recorded adoptions (former hub of {}) allocated/freed", n));
        }
        if a2 != a1 || f2 != f1 || traces != 0 {
            violate_soft(
                View::Cost,
                &format!("round {}: dropping a non-final handle to an object without recorded adoptions (former hub of {} adoptees) performed {} allocation(s), {} free(s), {} trace(s)", round, n, a2 - a1, f2 - f1, traces),
            );
        }
    }
    drop(spokes);
    drop(hub);
}

pub struct BigKind;

impl Kind for BigKind {
    type Case = BigCase;
    fn strategy(id: &str, _tier: Tier, _variant: u64) -> BoxedStrategy<BigCase> {
        let unwrap_probe = id == "C12";
        let sink_from: u8 = if id == "C09" { 5 } else { 8 };
        let nest_pct: u32 = match id {
            "C10" => 70,
            "C03" | "C06" => 15,
            _ => 0,
        };
        let sweep_pct: u32 = match id {
            "C01" => 35,
            "C09" => 25,
            "C06" => 20,
            "C03" => 10,
            _ => 0,
        };
        let dense_pct: u32 = match id {
            "C09" => 25,
            "C01" | "C03" | "C05" => 10,
            _ => 0,
        };
        let panic_pct: u32 = match id {
            "C03" | "C11" => 40,
            "C02" => 20,
            _ => 0,
        };
        let nodrop_pct: u32 = match id {
            "C12" => 100,
            "C04" | "C02" => 60,
            "C16" => 0,
            _ => 15,
        };
        let (keep_lo, keep_hi, weak_hi, clone_pct): (usize, usize, usize, u32) = match id {
            "C01" | "C06" => (1, 3, 2, 0),
            "C03" => (0, 2, 1, 0),
            "C05" => (0, 2, 3, 0),
            "C16" => (0, 0, 1, 100),
            "C09" => (0, 0, 2, 0),
            _ => (0, 1, 1, 0),
        };
        (
            any::<u16>(),
            any::<u16>(),
            vec((any::<u32>(), any::<u32>()), 0..6),
            0u8..10,
            vec(any::<u32>(), keep_lo..=keep_hi),
            vec(any::<u32>(), 0..=weak_hi),
            (0u32..100, any::<u32>()),
            any::<u16>(),
        )
            .prop_map(move |(size, tail, chords, dbl, keep, weaks, (cp, cn), order)| BigCase {
                size,
                tail,
                chords,
                double: dbl < 3,
                keep,
                weaks,
                clone_at: if cp < clone_pct { Some(cn) } else { None },
                order,
                panic_at: if (cn >> 8) % 100 < panic_pct { Some(cn >> 16) } else { None },
                // one in four chains is deep (up to 4000 nested collections)
                nest: if (order >> 3) as u32 % 100 < nest_pct { 2 + if (cn >> 12) % 4 == 0 { (cn >> 14) % if (cn >> 10) % 4 == 0 { 20_000 } else { 4000 } } else { cn % 240 } as u16 } else { 0 },
                sweep: (cn >> 4) % 100 < sweep_pct,
                dense: (cn >> 4) % 100 >= sweep_pct && (cn >> 4) % 100 < sweep_pct + dense_pct,
                sink: dbl >= sink_from,
                unwrap_probe: unwrap_probe && order & 1 == 1,
                nodrop: (order >> 8) as u32 % 100 < nodrop_pct,
            })
            .boxed()
    }
    fn run(id: &str, tier: Tier, c: &BigCase) -> CaseResult {
        let views = props::prop(id).map(|p| p.views).unwrap_or(0) | View::Crash.bit() | View::Mem.bit() | View::LibPanic.bit();
        let cc = c.clone();
        let idc = id.to_string();
        let run_once = |salt: usize| {
            let cc = cc.clone();
            let idc = idc.clone();
            exec::run_forked(views, if tier == Tier::Thorough { 90 } else { 25 }, move || {
                SALT.store(salt, Ordering::Relaxed);
                if cc.nodrop && idc != "C14" {
                    body_nodrop(&idc, &cc, tier)
                } else {
                    body(&idc, &cc, tier)
                }
            })
        };
        let mut r = run_once(0);
        if id == "C09" && r.outcome == exec::Outcome::Pass {
            // the same case under two more heap layouts: what the final drops
            // destroyed must not depend on addresses
            for salt in [5usize, 11] {
                let r2 = run_once(salt);
                if r2.outcome != exec::Outcome::Pass {
                    r = r2;
                    break;
                }
                if r2.counters[27] != r.counters[27] || (r2.counters[exec::SOFT_COUNTER] > 0) != (r.counters[exec::SOFT_COUNTER] > 0) {
                    r.outcome = exec::Outcome::Violation;
                    r.view = View::Layout as u32;
                    r.msg = format!(
                        "[layout-dependence] the same large-scale case destroyed {} objects under one heap layout and {} under another (or tripped another property's view under only one of them)",
                        r.counters[27].saturating_sub(1),
                        r2.counters[27].saturating_sub(1)
                    );
                    break;
                }
            }
        }
        // a death of the process inside a drop that was not an expected abort
        if r.signal != 0 && r.outcome != exec::Outcome::ExpectedAbort && r.outcome != exec::Outcome::Timeout {
            let (n, m) = sizes(c, tier);
            r.outcome = exec::Outcome::Violation;
            r.msg = format!("{} [ring {} + tail {}: the process died inside a drop on a 128 KiB stack; stack overflow is the expected cause]", r.msg, n, m);
        }
        r.nontrivial = r.labels & (1 << L_GT16) != 0;
        r
    }
    fn kind_name() -> &'static str {
        "big"
    }
    fn compact(c: &BigCase) -> String {
        let (n, m) = sizes(c, Tier::Quick);
        let (n2, m2) = sizes(c, Tier::Thorough);
        format!(
            "big: ring {}(thorough {}) tail {}({}) chords {} double {} keep {:?} weaks {:?} clone_at {:?}",
            n, n2, m, m2, c.chords.len(), c.double, c.keep.iter().map(|k| *k as usize % n).collect::<Vec<_>>(), c.weaks.len(), c.clone_at.map(|k| k as usize % (n + m))
        )
    }
    fn label_names() -> Vec<String> {
        let mut v: Vec<String> = NAMES.iter().map(|s| s.to_string()).collect();
        while v.len() < 64 {
            v.push(String::new());
        }
        v
    }
    fn totals(c: &[u64]) -> serde_json::Value {
        serde_json::json!({"objects": c[20], "adoptions": c[22]})
    }
    fn assumptions() -> Vec<String> {
        vec![]
    }
}
