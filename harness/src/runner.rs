//! Launcher, workers, replay and evidence (DESIGN §3.8 – §3.11).

use crate::exec::{self, CaseResult, Outcome, View};
use crate::props::{self, Tier};
use crate::script::Script;
use crate::world::{ctr, lab};
use crate::{arena, gen, interp};
use proptest::test_runner::{Config, RngSeed, TestCaseError, TestError, TestRunner};
use serde::{Deserialize, Serialize};
use std::collections::BTreeSet;
use std::path::{Path, PathBuf};
use std::time::Instant;

pub const ORDERS_DIFFERED: u32 = 60;
pub const CASE_TIMEOUT_S: u32 = 30;

pub fn root() -> PathBuf {
    PathBuf::from(std::env::var("CX_ROOT").unwrap_or_else(|_| "/verif".to_string()))
}

/// A family of generated cases: histories over the adoption API (`Script`),
/// straight-line programs for the differential check (C07), size/shape
/// parameters for the scaling check (C15).
pub trait Kind {
    type Case: Clone + std::fmt::Debug + Serialize + serde::de::DeserializeOwned + 'static;
    fn strategy(id: &str, tier: Tier, variant: u64) -> proptest::strategy::BoxedStrategy<Self::Case>;
    fn run(id: &str, tier: Tier, c: &Self::Case) -> CaseResult;
    fn compact(c: &Self::Case) -> String;
    fn sample_ok(_c: &Self::Case) -> bool {
        true
    }
    fn kind_name() -> &'static str {
        "script"
    }
    fn label_names() -> Vec<String>;
    fn totals(c: &[u64]) -> serde_json::Value;
    fn assumptions() -> Vec<String>;
}

pub fn case_json<C: Serialize>(c: &C) -> String {
    serde_json::to_string(c).unwrap()
}

pub fn case_hash<C: Serialize>(c: &C) -> u64 {
    let mut h: u64 = 0xcbf2_9ce4_8422_2325;
    for b in case_json(c).bytes() {
        h ^= b as u64;
        h = h.wrapping_mul(0x1_0000_0001_b3);
    }
    h
}

pub struct ScriptKind;

impl Kind for ScriptKind {
    type Case = Script;
    fn strategy(id: &str, tier: Tier, variant: u64) -> proptest::strategy::BoxedStrategy<Script> {
        gen::script(props::gen_cfg(id, tier, variant))
    }
    fn run(id: &str, tier: Tier, c: &Script) -> CaseResult {
        run_case(id, tier, c)
    }
    fn compact(c: &Script) -> String {
        c.compact()
    }
    fn sample_ok(c: &Script) -> bool {
        c.ops.len() <= 40
    }
    fn label_names() -> Vec<String> {
        let mut v: Vec<String> = lab::NAMES.iter().map(|s| s.to_string()).collect();
        while v.len() < 64 {
            v.push(String::new());
        }
        v[ORDERS_DIFFERED as usize] = "layouts_with_different_table_orders".into();
        v
    }
    fn totals(c: &[u64]) -> serde_json::Value {
        serde_json::json!({
            "ops": c[ctr::OPS], "noop_ops": c[ctr::NOOPS], "objects": c[ctr::OBJECTS],
            "group_collections": c[ctr::COLLECTIONS], "max_group": c[ctr::MAX_GROUP],
            "zero_count_deaths_with_records": c[ctr::RULEB_DEATHS], "plain_deaths": c[ctr::PLAIN_DEATHS],
            "audits": c[ctr::AUDITS], "table_snapshots": c[ctr::SNAPSHOTS], "upgrades": c[ctr::UPGRADES],
            "destructor_actions": c[ctr::DACTS_RUN], "ruleA_obligations": c[ctr::OBLIG_A], "ruleB_obligations": c[ctr::OBLIG_B],
            "inert_drops": c[ctr::INERT_DROPS], "arena_blocks": c[ctr::ARENA_BLOCKS], "cost_checks": c[ctr::COST_CHECKS],
            "traces": c[ctr::TRACE_CALLS], "injected_panics": c[ctr::PANICS],
        })
    }
    fn assumptions() -> Vec<String> {
        vec![
            "generated histories respect the documented adopt contract (recorded <= held) except for elided unadopt in ELIDE mode".into(),
            "sizes explored: <= 60 objects, <= 12 stored handles per object; see DESIGN.md section 7".into(),
            "the reference model (harness/src/model.rs) and hooks H1-H3 (cfg cactusref_verif) are trusted".into(),
        ]
    }
}

#[derive(Serialize, Deserialize, Clone)]
pub struct ReplayFile<C> {
    pub props: Vec<String>,
    pub note: String,
    /// "thorough": only replayed in the thorough tier (expensive probes)
    #[serde(default)]
    pub tier: Option<String>,
    pub script: C,
}

#[derive(Serialize, Deserialize, Default, Clone)]
pub struct Failure {
    #[serde(default)]
    pub kind: String,
    pub script: Option<serde_json::Value>,
    pub msg: String,
    pub first_msg: String,
    pub first_script: Option<serde_json::Value>,
}

#[derive(Serialize, Deserialize, Default)]
pub struct WorkerOut {
    pub evaluations: u64,
    pub pass: u64,
    pub violations: u64,
    pub other_view: u64,
    pub known: u64,
    pub internal: u64,
    pub exhausted: u64,
    pub timeout: u64,
    pub expected_abort: u64,
    #[serde(default)]
    pub soft_other: u64,
    #[serde(default)]
    pub skipped_after_watchdog: u64,
    pub label_hist: Vec<u64>,
    pub counters: Vec<u64>,
    pub nontrivial_hashes: Vec<u64>,
    pub samples: Vec<String>,
    pub failure: Option<Failure>,
    pub internal_msgs: Vec<String>,
    pub other_msgs: Vec<String>,
    pub kf_msgs: Vec<String>,
    pub timeout_scripts: Vec<String>,
}

fn init_process() {
    arena::init();
    exec::init_shared();
}

/// Execute one script for property `id` (one fork; K forks for C09).
pub fn run_case(id: &str, tier: Tier, s: &Script) -> CaseResult {
    let p = props::prop(id).expect("unknown property");
    if id == "C09" {
        let k = if tier == Tier::Thorough { p.layouts_thorough } else { p.layouts_quick };
        let mut first: Option<CaseResult> = None;
        let mut orders_differ = false;
        let mut results: Vec<(u64, CaseResult)> = vec![];
        for j in 0..k {
            let mut sj = s.clone();
            let seed_of_layout = s.layout_seed.wrapping_add((j as u64).wrapping_mul(0xA24B_AED4_963E_E407));
            sj.arena_seed = Some(seed_of_layout);
            let r = run_one(id, p.views, &sj);
            match r.outcome {
                Outcome::Pass | Outcome::OtherView | Outcome::Violation => results.push((seed_of_layout, r)),
                _ => return r,
            }
        }
        let npass = results.iter().filter(|(_, r)| r.outcome == Outcome::Pass).count();
        if npass == 0 {
            // every layout misbehaves the same way with respect to another property
            return results.remove(0).1;
        }
        if npass < results.len() {
            // the same call sequence is fine under some layouts and not under others
            let (lp, _) = results.iter().find(|(_, r)| r.outcome == Outcome::Pass).unwrap();
            let (lb, rb) = results.iter().find(|(_, r)| r.outcome != Outcome::Pass).unwrap();
            let mut v = rb.clone();
            v.outcome = Outcome::Violation;
            v.view = View::Layout as u32;
            v.msg = format!(
                "[layout-dependence] the same call sequence behaves correctly under heap layout {:#x} but not under layout {:#x} ({} of {} layouts affected): {}",
                lp,
                lb,
                results.len() - npass,
                results.len(),
                rb.msg
            );
            return v;
        }
        for (seed_j, r) in results {
            match &mut first {
                None => first = Some(r),
                Some(f) => {
                    if f.counters[ctr::ORDER_HASH] != r.counters[ctr::ORDER_HASH] {
                        orders_differ = true;
                    }
                    if (f.counters[exec::SOFT_COUNTER] > 0) != (r.counters[exec::SOFT_COUNTER] > 0) {
                        let mut v = r.clone();
                        v.outcome = Outcome::Violation;
                        v.view = View::Layout as u32;
                        v.msg = format!(
                            "[layout-dependence] the same call sequence trips another property's view under one heap layout but not under another ({:#x} vs {:#x})",
                            s.layout_seed, seed_j
                        );
                        return v;
                    }
                    if f.digest != r.digest {
                        let mut v = r.clone();
                        v.outcome = Outcome::Violation;
                        v.view = View::Layout as u32;
                        v.msg = format!(
                            "[layout-dependence] the same call sequence destroyed different sets of objects or showed different counts under heap layouts {:#x} and {:#x} (digests {:#x} vs {:#x})",
                            s.layout_seed, seed_j, f.digest, r.digest
                        );
                        return v;
                    }
                }
            }
        }
        let mut f = first.unwrap();
        if orders_differ {
            f.labels |= 1u64 << ORDERS_DIFFERED;
        }
        f.nontrivial = props::nontrivial(id, f.labels, &f.counters) && orders_differ;
        return f;
    }
    let mut r = run_one(id, p.views, s);
    r.nontrivial = props::nontrivial(id, r.labels, &r.counters);
    r
}

fn run_one(id: &str, views: u32, s: &Script) -> CaseResult {
    let cfg_id = id.to_string();
    // debugging aid: treat every view as enabled
    let views = if std::env::var_os("CX_ALL_VIEWS").is_some() { u32::MAX & !(1 << 31) } else { views };
    exec::run_forked(views, CASE_TIMEOUT_S, || {
        let mut cfg = props::world_cfg(&cfg_id, s.mode);
        cfg.shallow_clone = s.layout_seed & 1 == 1;
        // one script in eight injects a panic into the payload's Clone (make_mut)
        cfg.clone_panics = match (s.layout_seed >> 8) & 15 { 0 => 1, 1 => 2, _ => 0 };
        // re-entrant Clone (not together with armed destructor panics: C11)
        cfg.clone_reentrant = (s.layout_seed >> 14) & 1 == 0 && cfg_id != "C11";
        cfg.default_ctor = match (s.layout_seed >> 16) & 7 { 0 => 2, 1 | 2 | 3 => 1, _ => 0 };
        cfg.dtor_unwrap = (s.layout_seed >> 40) & 1 == 1 && (cfg_id == "C10" || cfg_id == "C12");
        cfg.dtor_stash = (s.layout_seed >> 41) & 1 == 1 && (cfg_id == "C02" || cfg_id == "C10" || cfg_id == "C16");
        if std::env::var_os("CX_LOG_PANIC").is_some() {
            crate::exec::LOG_PANIC_IN.store(((s.layout_seed >> 40) % 48) as u32, std::sync::atomic::Ordering::Relaxed);
        }
        // no logger in half of the cases, else a sink at a level picked by the script
        crate::exec::set_log_level_sel(if s.layout_seed & 2 == 2 { 1 + ((s.layout_seed >> 21) % 7) as u8 } else { 0 });
        interp::run_script(s, cfg);
    })
}

fn arg<'a>(args: &'a [String], name: &str) -> Option<&'a str> {
    args.iter().position(|a| a == name).and_then(|i| args.get(i + 1)).map(|s| s.as_str())
}

fn parse_tier(args: &[String]) -> Tier {
    let t = arg(args, "--tier").map(|s| s.to_string()).or_else(|| std::env::var("VERIF_TIER").ok()).unwrap_or_else(|| "quick".into());
    if t == "thorough" {
        Tier::Thorough
    } else {
        Tier::Quick
    }
}

fn mix(a: u64, b: u64) -> u64 {
    let mut z = a.wrapping_add(b.wrapping_mul(0x9E37_79B9_7F4A_7C15)).wrapping_add(0x632B_E59B_D9B4_E019);
    z = (z ^ (z >> 30)).wrapping_mul(0xBF58_476D_1CE4_E5B9);
    z = (z ^ (z >> 27)).wrapping_mul(0x94D0_49BB_1331_11EB);
    z ^ (z >> 31)
}

// ---- worker ------------------------------------------------------------------

pub fn worker(args: &[String]) -> i32 {
    match args[0].as_str() {
        "C07" => worker_k::<crate::c07::ProgKind>(args),
        "C15" => worker_k::<crate::c15::ScaleKind>(args),
        _ => worker_k::<ScriptKind>(args),
    }
}

pub fn worker_k<K: Kind>(args: &[String]) -> i32 {
    let id = args[0].clone();
    let tier = parse_tier(args);
    let seed: u64 = arg(args, "--seed").unwrap().parse().unwrap();
    let index: u64 = arg(args, "--index").unwrap().parse().unwrap();
    let cases: u64 = arg(args, "--cases").unwrap().parse().unwrap();
    let out_path = arg(args, "--out").unwrap().to_string();
    init_process();
    let out = WorkerOut { label_hist: vec![0; 64], counters: vec![0; exec::NCOUNTERS], ..Default::default() };
    let strat = K::strategy(&id, tier, index);
    let mut idb: u64 = 0;
    for b in id.bytes() {
        idb = idb.wrapping_mul(131).wrapping_add(b as u64);
    }
    let wseed = mix(mix(seed, index), idb);
    let config = Config {
        cases: cases as u32,
        rng_seed: RngSeed::Fixed(wseed),
        failure_persistence: None,
        max_shrink_iters: 6000,
        max_global_rejects: 10,
        ..Config::default()
    };
    let mut runner = TestRunner::new(config);
    struct State {
        out: WorkerOut,
        failed: bool,
        hashes: BTreeSet<u64>,
        first_fail: Option<(serde_json::Value, String)>,
    }
    let state = std::cell::RefCell::new(State { out, failed: false, hashes: BTreeSet::new(), first_fail: None });
    let result = runner.run(&strat, |s| {
        // a tree that makes cases hang must not make the check run for hours:
        // after three watchdog hits the remaining cases of this worker are skipped
        // (the check then ends undecided, exit 2)
        if state.borrow().out.timeout >= 3 {
            state.borrow_mut().out.skipped_after_watchdog += 1;
            return Ok(());
        }
        let r = K::run(&id, tier, &s);
        let mut guard = state.borrow_mut();
        let State { out, failed, hashes, first_fail } = &mut *guard;
        if !*failed {
            out.evaluations += 1;
            for l in 0..64 {
                if r.labels & (1u64 << l) != 0 {
                    out.label_hist[l] += 1;
                }
            }
            for (i, c) in r.counters.iter().enumerate() {
                if i == ctr::MAX_GROUP {
                    out.counters[i] = out.counters[i].max(*c);
                } else if i != ctr::ORDER_HASH && i != exec::SOFT_COUNTER {
                    out.counters[i] += *c;
                }
            }
            match r.outcome {
                Outcome::Pass | Outcome::ExpectedAbort => {
                    if r.outcome == Outcome::Pass {
                        out.pass += 1;
                    } else {
                        out.expected_abort += 1;
                    }
                    if r.counters[exec::SOFT_COUNTER] > 0 {
                        out.soft_other += 1;
                    }
                    if r.nontrivial {
                        let h = case_hash(&s);
                        if hashes.insert(h) && out.samples.len() < 6 && K::sample_ok(&s) {
                            out.samples.push(K::compact(&s));
                        }
                    }
                }
                Outcome::Violation => out.violations += 1,
                Outcome::OtherView => {
                    out.other_view += 1;
                    if out.other_msgs.len() < 5 {
                        out.other_msgs.push(r.msg.clone());
                    }
                }
                Outcome::KnownFinding => {
                    out.known += 1;
                    if out.kf_msgs.len() < 3 {
                        out.kf_msgs.push(r.msg.clone());
                    }
                }
                Outcome::Internal | Outcome::None => {
                    out.internal += 1;
                    if out.internal_msgs.len() < 5 {
                        out.internal_msgs.push(format!("{} :: {}", r.msg, case_json(&s)));
                    }
                }
                Outcome::Exhausted => out.exhausted += 1,
                Outcome::Timeout => {
                    out.timeout += 1;
                    if out.timeout_scripts.len() < 3 {
                        out.timeout_scripts.push(case_json(&s));
                    }
                }
            }
        }
        if r.outcome == Outcome::Violation {
            if !*failed {
                *failed = true;
                *first_fail = Some((serde_json::to_value(&s).unwrap(), r.msg.clone()));
            }
            Err(TestCaseError::fail(r.msg))
        } else {
            Ok(())
        }
    });
    let State { mut out, hashes, first_fail, .. } = state.into_inner();
    out.nontrivial_hashes = hashes.into_iter().collect();
    if let Err(e) = result {
        let (ffs, ffm) = first_fail.clone().map(|(s, m)| (Some(s), m)).unwrap_or((None, String::new()));
        match e {
            TestError::Fail(reason, s) => {
                out.failure = Some(Failure { kind: K::kind_name().to_string(), script: Some(serde_json::to_value(&s).unwrap()), msg: reason.message().to_string(), first_msg: ffm, first_script: ffs });
            }
            TestError::Abort(reason) => {
                out.failure = Some(Failure { kind: K::kind_name().to_string(), script: ffs.clone(), msg: format!("aborted: {}", reason.message()), first_msg: ffm, first_script: ffs });
            }
        }
    }
    std::fs::write(&out_path, serde_json::to_string(&out).unwrap()).unwrap();
    0
}

pub const BIG_PROPS: [&str; 13] = ["C01", "C02", "C03", "C04", "C05", "C06", "C09", "C10", "C11", "C12", "C14", "C15", "C16"];
pub const TYPES_PROPS: [&str; 10] = ["C01", "C02", "C03", "C04", "C05", "C06", "C08", "C09", "C11", "C12"];
pub const SWEEP_PROPS: [&str; 8] = ["C01", "C02", "C03", "C04", "C05", "C06", "C08", "C11"];

/// One worker of the small-scope sweep: cases index, index+of, ...
pub fn sweep_worker(args: &[String]) -> i32 {
    let id = args[0].clone();
    let index: u64 = arg(args, "--index").unwrap().parse().unwrap();
    let of: u64 = arg(args, "--of").unwrap().parse().unwrap();
    let out_path = arg(args, "--out").unwrap().to_string();
    let limit: u64 = arg(args, "--limit").and_then(|s| s.parse().ok()).unwrap_or(u64::MAX);
    init_process();
    let mut out = WorkerOut { label_hist: vec![0; 64], counters: vec![0; exec::NCOUNTERS], ..Default::default() };
    let mut hashes: BTreeSet<u64> = BTreeSet::new();
    let total = crate::sweep::total_for(&id).min(limit);
    let stride: u64 = arg(args, "--stride").and_then(|s| s.parse().ok()).unwrap_or(1).max(1);
    let phase: u64 = arg(args, "--phase").and_then(|s| s.parse().ok()).unwrap_or(0) % stride;
    let mut k = index * stride + phase;
    let of = of * stride;
    while k < total {
        let (c, s) = crate::sweep::script_for(&id, k);
        let r = run_case(&id, Tier::Thorough, &s);
        out.evaluations += 1;
        for l in 0..64 {
            if r.labels & (1u64 << l) != 0 {
                out.label_hist[l] += 1;
            }
        }
        match r.outcome {
            Outcome::Pass | Outcome::ExpectedAbort => {
                out.pass += 1;
                if r.nontrivial {
                    hashes.insert(case_hash(&s));
                    if out.samples.len() < 2 {
                        out.samples.push(format!("sweep#{} {} => {}", k, c, s.compact()));
                    }
                }
            }
            Outcome::Violation => {
                out.violations += 1;
                if out.failure.is_none() {
                    out.failure = Some(Failure { kind: "script".into(), script: Some(serde_json::to_value(&s).unwrap()), msg: r.msg.clone(), first_msg: r.msg.clone(), first_script: None });
                }
            }
            Outcome::OtherView => out.other_view += 1,
            Outcome::KnownFinding => out.known += 1,
            Outcome::Internal | Outcome::None => {
                out.internal += 1;
                if out.internal_msgs.len() < 3 {
                    out.internal_msgs.push(format!("{} :: sweep#{}", r.msg, k));
                }
            }
            Outcome::Exhausted => out.exhausted += 1,
            Outcome::Timeout => out.timeout += 1,
        }
        k += of;
    }
    out.nontrivial_hashes = hashes.into_iter().collect();
    std::fs::write(&out_path, serde_json::to_string(&out).unwrap()).unwrap();
    0
}

// ---- replay --------------------------------------------------------------------

pub fn load_replay<C: serde::de::DeserializeOwned>(path: &Path) -> Result<ReplayFile<C>, String> {
    let txt = std::fs::read_to_string(path).map_err(|e| format!("{}: {}", path.display(), e))?;
    serde_json::from_str::<ReplayFile<C>>(&txt).map_err(|e| format!("{}: {}", path.display(), e))
}

pub fn replay_cmd(args: &[String]) -> i32 {
    if args.len() < 2 {
        eprintln!("usage: cxcheck replay <PROP> <file>");
        return 2;
    }
    match args[0].as_str() {
        "C07" => replay_k::<crate::c07::ProgKind>(args),
        "C15" => replay_k::<crate::c15::ScaleKind>(args),
        _ => replay_k::<ScriptKind>(args),
    }
}

pub fn replay_k<K: Kind>(args: &[String]) -> i32 {
    let id = &args[0];
    let path = PathBuf::from(&args[1]);
    let tier = parse_tier(args);
    let rf = match load_replay::<K::Case>(&path) {
        Ok(r) => r,
        Err(e) => {
            // a large-scale case saved for a script-based property
            if K::kind_name() == "script" && load_replay::<crate::big::BigCase>(&path).is_ok() {
                return replay_k::<crate::big::BigKind>(args);
            }
            if K::kind_name() == "script" && load_replay::<crate::ext::TypesCase>(&path).is_ok() {
                return replay_k::<crate::ext::TypesKind>(args);
            }
            eprintln!("{}", e);
            return 2;
        }
    };
    init_process();
    let r = K::run(id, tier, &rf.script);
    println!("script: {}", K::compact(&rf.script));
    println!("outcome: {:?} {}", r.outcome, r.msg);
    let ln = K::label_names();
    let names: Vec<&str> = (0..64).filter(|&l| r.labels & (1u64 << l) != 0 && !ln[l].is_empty()).map(|l| ln[l].as_str()).collect();
    println!("labels: {:?} nontrivial={}", names, r.nontrivial);
    match r.outcome {
        Outcome::Violation => {
            println!("VIOLATION property={} replay={}", id, path.display());
            1
        }
        Outcome::KnownFinding => {
            println!("KNOWN-FINDING: property={} {}", id, r.msg);
            0
        }
        Outcome::Pass | Outcome::ExpectedAbort | Outcome::OtherView => 0,
        _ => 2,
    }
}

// ---- launcher --------------------------------------------------------------------

#[derive(Deserialize, Default)]
pub struct KnownEntry {
    pub id: String,
    pub property: String,
    pub signature: String,
    pub example_replay: String,
    pub what: String,
}

#[derive(Deserialize, Default)]
pub struct KnownFile {
    pub known: Vec<KnownEntry>,
    pub fixed: Vec<String>,
}

pub fn load_known() -> KnownFile {
    let p = root().join("known_findings.json");
    match std::fs::read_to_string(&p) {
        Ok(t) => serde_json::from_str(&t).unwrap_or_default(),
        Err(_) => KnownFile::default(),
    }
}

fn save_found<C: Serialize + Clone>(id: &str, s: &C, note: &str) -> PathBuf {
    let dir = root().join("replays/found");
    let _ = std::fs::create_dir_all(&dir);
    let path = dir.join(format!("{}-{:016x}.json", id, case_hash(s)));
    let rf = ReplayFile { props: vec![id.to_string()], note: note.to_string(), tier: None, script: s.clone() };
    let _ = std::fs::write(&path, serde_json::to_string_pretty(&rf).unwrap());
    path
}

pub fn launcher(args: &[String]) -> i32 {
    if args.is_empty() {
        eprintln!("usage: cxcheck run <PROP> [--tier quick|thorough]");
        return 2;
    }
    match args[0].as_str() {
        "C07" => launcher_k::<crate::c07::ProgKind>(args),
        "C15" => launcher_k::<crate::c15::ScaleKind>(args),
        _ => launcher_k::<ScriptKind>(args),
    }
}

pub fn launcher_k<K: Kind>(args: &[String]) -> i32 {
    let id = args[0].clone();
    let Some(p) = props::prop(&id) else {
        eprintln!("unknown property {}", id);
        return 2;
    };
    let tier = parse_tier(args);
    let seed: u64 = std::env::var("VERIF_SEED").ok().and_then(|s| s.parse().ok()).unwrap_or(1);
    let nworkers: u64 = std::env::var("VERIF_WORKERS").ok().and_then(|s| s.parse().ok()).unwrap_or(16);
    let total: u64 = arg(args, "--cases").and_then(|s| s.parse().ok()).unwrap_or(if tier == Tier::Thorough { p.thorough_cases } else { p.quick_cases });
    let t0 = Instant::now();
    init_process();
    let mut violations: Vec<(PathBuf, String)> = vec![];
    let mut known_lines: Vec<String> = vec![];
    let mut replayed = 0u64;
    let mut replay_notes: Vec<String> = vec![];
    let mut undecided: Vec<String> = vec![];

    // 1. replay tier: regressions, then known-finding examples
    let mut files: Vec<PathBuf> = std::fs::read_dir(root().join("replays/regress"))
        .map(|d| d.filter_map(|e| e.ok().map(|e| e.path())).filter(|p| p.extension().map(|e| e == "json").unwrap_or(false)).collect())
        .unwrap_or_default();
    files.sort();
    for f in &files {
        // replay files of other case kinds do not parse as this kind: check the property list first
        let Ok(txt) = std::fs::read_to_string(f) else { continue };
        let Ok(hdr) = serde_json::from_str::<serde_json::Value>(&txt) else {
            undecided.push(format!("unreadable replay {}", f.display()));
            continue;
        };
        let listed = hdr.get("props").and_then(|p| p.as_array()).map(|a| a.iter().any(|x| x.as_str() == Some(id.as_str()))).unwrap_or(false);
        if !listed {
            continue;
        }
        if tier == Tier::Quick && hdr.get("tier").and_then(|t| t.as_str()) == Some("thorough") {
            continue;
        }
        let r = match load_replay::<K::Case>(f) {
            Ok(rf) => K::run(&id, tier, &rf.script),
            Err(_) => match load_replay::<crate::big::BigCase>(f) {
                Ok(rf) => <crate::big::BigKind as Kind>::run(&id, tier, &rf.script),
                Err(_) => {
                    undecided.push(format!("unreadable replay {}", f.display()));
                    continue;
                }
            },
        };
        replayed += 1;
        match r.outcome {
            Outcome::Violation => violations.push((f.clone(), r.msg.clone())),
            Outcome::Pass | Outcome::ExpectedAbort | Outcome::OtherView | Outcome::KnownFinding => {}
            _ => undecided.push(format!("replay {}: {:?} {}", f.display(), r.outcome, r.msg)),
        }
        replay_notes.push(format!("{}: {:?}{}", f.file_name().unwrap().to_string_lossy(), r.outcome, if r.outcome == Outcome::Pass && !r.msg.is_empty() && r.msg.len() < 300 { format!(" ({})", r.msg) } else { String::new() }));
    }
    let known = load_known();
    for k in known.known.iter().filter(|k| k.property == id) {
        let path = root().join(&k.example_replay);
        match load_replay::<K::Case>(&path) {
            Ok(rf) => {
                let r = K::run(&id, tier, &rf.script);
                replayed += 1;
                match r.outcome {
                    Outcome::KnownFinding => known_lines.push(format!("KNOWN-FINDING: property={} {} [{}] example={}", id, k.what, k.id, k.example_replay)),
                    Outcome::Violation => violations.push((path.clone(), r.msg.clone())),
                    _ => replay_notes.push(format!("known finding {} example did not reproduce: {:?}", k.id, r.outcome)),
                }
            }
            Err(e) => undecided.push(e),
        }
    }

    // 2. generated search
    let run_dir = root().join(format!("harness/target/runs/{}-{}", id, std::process::id()));
    let _ = std::fs::create_dir_all(&run_dir);
    let exe = std::env::current_exe().unwrap();
    let mut children = vec![];
    let alt_bin: Option<PathBuf> = arg(args, "--alt-bin").map(PathBuf::from).filter(|p| p.exists());
    let mut alt_workers = 0u64;
    if total > 0 {
        for i in 0..nworkers {
            let cases = total / nworkers + if i < total % nworkers { 1 } else { 0 };
            if cases == 0 {
                continue;
            }
            let out = run_dir.join(format!("w{}.json", i));
            // every other worker (thorough) / every fourth (quick) runs the second
            // binary: plain release profile (no debug assertions / overflow checks:
            // wrap-around changes which path misbehaves), crate built without its
            // default features
            let use_alt = alt_bin.is_some() && if tier == Tier::Thorough { i % 2 == 1 } else { i % 4 == 1 };
            if use_alt {
                alt_workers += 1;
            }
            let child = std::process::Command::new(if use_alt { alt_bin.as_ref().unwrap() } else { &exe })
                .arg("worker")
                .arg(&id)
                .arg("--tier")
                .arg(if tier == Tier::Thorough { "thorough" } else { "quick" })
                .arg("--seed")
                .arg(seed.to_string())
                .arg("--index")
                .arg(i.to_string())
                .arg("--cases")
                .arg(cases.to_string())
                .arg("--out")
                .arg(&out)
                .spawn()
                .expect("cannot spawn worker");
            children.push((child, out));
        }
    }
    let mut merged = WorkerOut { label_hist: vec![0; 64], counters: vec![0; exec::NCOUNTERS], ..Default::default() };
    let mut hashes: BTreeSet<u64> = BTreeSet::new();
    let mut failures: Vec<Failure> = vec![];
    for (mut child, out) in children {
        let st = child.wait().expect("wait");
        let Ok(txt) = std::fs::read_to_string(&out) else {
            undecided.push(format!("worker produced no output (status {:?})", st.code()));
            continue;
        };
        let wo: WorkerOut = match serde_json::from_str(&txt) {
            Ok(w) => w,
            Err(e) => {
                undecided.push(format!("bad worker output: {}", e));
                continue;
            }
        };
        merged.evaluations += wo.evaluations;
        merged.pass += wo.pass;
        merged.violations += wo.violations;
        merged.other_view += wo.other_view;
        merged.known += wo.known;
        merged.internal += wo.internal;
        merged.exhausted += wo.exhausted;
        merged.timeout += wo.timeout;
        merged.expected_abort += wo.expected_abort;
        merged.soft_other += wo.soft_other;
        merged.skipped_after_watchdog += wo.skipped_after_watchdog;
        for i in 0..64 {
            merged.label_hist[i] += wo.label_hist[i];
        }
        for i in 0..exec::NCOUNTERS {
            if i == ctr::MAX_GROUP {
                merged.counters[i] = merged.counters[i].max(wo.counters[i]);
            } else {
                merged.counters[i] += wo.counters[i];
            }
        }
        hashes.extend(wo.nontrivial_hashes.iter().copied());
        for s in wo.samples {
            if merged.samples.len() < 6 {
                merged.samples.push(s);
            }
        }
        merged.internal_msgs.extend(wo.internal_msgs);
        merged.other_msgs.extend(wo.other_msgs);
        merged.kf_msgs.extend(wo.kf_msgs);
        merged.timeout_scripts.extend(wo.timeout_scripts);
        if let Some(f) = wo.failure {
            failures.push(f);
        }
    }
    // 2b. small-scope sweep (thorough tier)
    let mut sweep_info = serde_json::json!(null);
    // the quick tier runs a slice of the sweep (phase chosen by the seed): every
    // 8th case of C11's fault enumeration, every 48th case of the small-scope
    // sweep; the thorough tier runs all of it
    let quick_slice = tier == Tier::Quick && arg(args, "--sweep").is_none();
    let stride: u64 = if !quick_slice { 1 } else if id == "C11" { 8 } else { 48 };
    // once a stage has found a violation the later stages are skipped
    let do_sweep = SWEEP_PROPS.contains(&id.as_str()) && !args.iter().any(|a| a == "--no-sweep") && failures.is_empty() && violations.is_empty();
    if do_sweep {
        let limit = arg(args, "--sweep").and_then(|s| s.parse::<u64>().ok()).unwrap_or(u64::MAX);
        let mut kids = vec![];
        for i in 0..nworkers {
            let out = run_dir.join(format!("s{}.json", i));
            let child = std::process::Command::new(&exe)
                .arg("sweepworker")
                .arg(&id)
                .arg("--index")
                .arg(i.to_string())
                .arg("--of")
                .arg(nworkers.to_string())
                .arg("--limit")
                .arg(limit.to_string())
                .arg("--stride")
                .arg(stride.to_string())
                .arg("--phase")
                .arg((seed % stride).to_string())
                .arg("--out")
                .arg(&out)
                .spawn()
                .expect("cannot spawn sweep worker");
            kids.push((child, out));
        }
        let mut sw_eval = 0u64;
        let mut sw_nontrivial = 0usize;
        let mut sw_other = 0u64;
        for (mut child, out) in kids {
            let _ = child.wait();
            let Ok(txt) = std::fs::read_to_string(&out) else {
                undecided.push("sweep worker produced no output".into());
                continue;
            };
            let Ok(wo) = serde_json::from_str::<WorkerOut>(&txt) else {
                undecided.push("bad sweep worker output".into());
                continue;
            };
            sw_eval += wo.evaluations;
            sw_other += wo.other_view;
            merged.internal += wo.internal;
            merged.timeout += wo.timeout;
            merged.other_view += wo.other_view;
            merged.internal_msgs.extend(wo.internal_msgs);
            for i in 0..64 {
                merged.label_hist[i] += wo.label_hist[i];
            }
            sw_nontrivial += wo.nontrivial_hashes.len();
            hashes.extend(wo.nontrivial_hashes.iter().copied());
            for smp in wo.samples {
                if merged.samples.len() < 8 {
                    merged.samples.push(smp);
                }
            }
            if let Some(f) = wo.failure {
                failures.push(f);
            }
        }
        replayed += sw_eval;
        sweep_info = serde_json::json!({
            "cases": sw_eval,
            "space": crate::sweep::total_for(&id),
            "exhaustive": limit == u64::MAX && stride == 1,
            "stride": stride,
            "nontrivial": sw_nontrivial,
            "inconclusive_other_property": sw_other,
            "description": if id == "C11" { "fault enumeration: every adoption graph on 1..3 objects with multiplicity <= 1 per ordered pair (self pairs included) x kept/dropped roots x Weak to every object or none x every drop order x which object's destructor panics x with/without observations from the other destructors" } else { "every adoption multigraph on 1..3 objects with multiplicity <= 2 per ordered pair (self pairs included) x kept/dropped roots x Weak to every object or none x every drop order; plus n=2 with multiplicity <= 3, one optional unrecorded stored handle, one optional loopback" },
        });
    }
    // 2d. large-scale semantic cases (size thresholds): rings with tails of up
    // to 8k (quick) / 120k (thorough) objects under the same oracles
    let mut big_info = serde_json::json!(null);
    let mut big_failures: Vec<Failure> = vec![];
    if BIG_PROPS.contains(&id.as_str()) && !args.iter().any(|a| a == "--no-big") && failures.is_empty() && violations.is_empty() {
        let big_total: u64 = arg(args, "--big").and_then(|s| s.parse().ok()).unwrap_or(if tier == Tier::Thorough { 8000 } else if id == "C09" { 1600 } else { 640 });
        let mut kids = vec![];
        for i in 0..nworkers {
            let cases = big_total / nworkers + if i < big_total % nworkers { 1 } else { 0 };
            if cases == 0 {
                continue;
            }
            let out = run_dir.join(format!("b{}.json", i));
            let child = std::process::Command::new(&exe)
                .arg("bigworker")
                .arg(&id)
                .arg("--tier")
                .arg(if tier == Tier::Thorough { "thorough" } else { "quick" })
                .arg("--seed")
                .arg(seed.to_string())
                .arg("--index")
                .arg((i + 1000).to_string())
                .arg("--cases")
                .arg(cases.to_string())
                .arg("--out")
                .arg(&out)
                .spawn()
                .expect("cannot spawn big worker");
            kids.push((child, out));
        }
        let mut bl = serde_json::Map::new();
        let mut hist = vec![0u64; 64];
        let (mut ev, mut nt, mut objs) = (0u64, 0usize, 0u64);
        for (mut child, out) in kids {
            let _ = child.wait();
            let Ok(txt) = std::fs::read_to_string(&out) else {
                undecided.push("big worker produced no output".into());
                continue;
            };
            let Ok(wo) = serde_json::from_str::<WorkerOut>(&txt) else {
                undecided.push("bad big worker output".into());
                continue;
            };
            ev += wo.evaluations;
            nt += wo.nontrivial_hashes.len();
            objs += wo.counters[20];
            merged.internal += wo.internal;
            merged.timeout += wo.timeout;
            merged.skipped_after_watchdog += wo.skipped_after_watchdog;
            merged.other_view += wo.other_view;
            merged.expected_abort += wo.expected_abort;
            merged.internal_msgs.extend(wo.internal_msgs);
            for i in 0..64 {
                hist[i] += wo.label_hist[i];
            }
            hashes.extend(wo.nontrivial_hashes.iter().map(|h| h ^ 0xB16));
            for smp in wo.samples.into_iter().take(1) {
                if merged.samples.len() < 10 {
                    merged.samples.push(smp);
                }
            }
            if let Some(f) = wo.failure {
                big_failures.push(f);
            }
        }
        for (i, name) in crate::big::NAMES.iter().enumerate() {
            if hist[i] > 0 {
                bl.insert(name.to_string(), serde_json::json!(hist[i]));
            }
        }
        replayed += ev;
        big_info = serde_json::json!({"cases": ev, "nontrivial": nt, "objects_total": objs, "labels": bl,
            "description": "rings (optionally doubly linked, with chords) plus adopted acyclic tails, built in O(N); outside strong handles, outside Weaks and a destructor that clones a stored handle as probes; every collecting drop on a 128 KiB stack; oracles of C01/C03/C05/C06/C15/C16 at sizes the auditing interpreter cannot reach"});
    }
    big_failures.sort_by_key(|f| f.script.as_ref().map(|s| s.to_string().len()).unwrap_or(usize::MAX));
    if let Some(f) = big_failures.first() {
        if let Some(sv) = &f.script {
            let s: crate::big::BigCase = serde_json::from_value(sv.clone()).expect("unparsable big case");
            let r = <crate::big::BigKind as Kind>::run(&id, tier, &s);
            let (case, msg) = if r.outcome == Outcome::Violation {
                (s, r.msg)
            } else if let Some(fs) = &f.first_script {
                (serde_json::from_value(fs.clone()).expect("unparsable big case"), f.first_msg.clone())
            } else {
                (s, f.msg.clone())
            };
            let path = save_found(&id, &case, &msg);
            violations.push((path, msg));
        }
    }
    // 2e. payload-type matrix: generated histories on Rc<T> for a list of payload
    // types (zero-sized, odd sizes, larger than a page, over-aligned, with and
    // without drop glue), ownership kept outside the values
    let mut types_info = serde_json::json!(null);
    let mut types_failures: Vec<Failure> = vec![];
    if TYPES_PROPS.contains(&id.as_str()) && !args.iter().any(|a| a == "--no-types") && failures.is_empty() && violations.is_empty() {
        let total: u64 = arg(args, "--types").and_then(|s| s.parse().ok()).unwrap_or(if tier == Tier::Thorough { 200_000 } else { 12_000 });
        let mut kids = vec![];
        for i in 0..nworkers {
            let cases = total / nworkers + if i < total % nworkers { 1 } else { 0 };
            if cases == 0 {
                continue;
            }
            let out = run_dir.join(format!("t{}.json", i));
            let child = std::process::Command::new(&exe)
                .arg("typesworker")
                .arg(&id)
                .arg("--tier")
                .arg(if tier == Tier::Thorough { "thorough" } else { "quick" })
                .arg("--seed")
                .arg(seed.to_string())
                .arg("--index")
                .arg((i + 2000).to_string())
                .arg("--cases")
                .arg(cases.to_string())
                .arg("--out")
                .arg(&out)
                .spawn()
                .expect("cannot spawn types worker");
            kids.push((child, out));
        }
        let mut tl = serde_json::Map::new();
        let mut hist = vec![0u64; 64];
        let (mut ev, mut nt, mut objs) = (0u64, 0usize, 0u64);
        let mut tsamples = vec![];
        for (mut child, out) in kids {
            let _ = child.wait();
            let Ok(txt) = std::fs::read_to_string(&out) else {
                undecided.push("types worker produced no output".into());
                continue;
            };
            let Ok(wo) = serde_json::from_str::<WorkerOut>(&txt) else {
                undecided.push("bad types worker output".into());
                continue;
            };
            ev += wo.evaluations;
            nt += wo.nontrivial_hashes.len();
            objs += wo.counters[20];
            merged.internal += wo.internal;
            merged.timeout += wo.timeout;
            merged.skipped_after_watchdog += wo.skipped_after_watchdog;
            merged.other_view += wo.other_view;
            merged.soft_other += wo.soft_other;
            merged.exhausted += wo.exhausted;
            merged.internal_msgs.extend(wo.internal_msgs);
            for i in 0..64 {
                hist[i] += wo.label_hist[i];
            }
            hashes.extend(wo.nontrivial_hashes.iter().map(|h| h ^ 0x7E5));
            for smp in wo.samples.into_iter().take(1) {
                if tsamples.len() < 3 {
                    tsamples.push(smp);
                }
            }
            if let Some(f) = wo.failure {
                types_failures.push(f);
            }
        }
        for (i, name) in crate::ext::NAMES.iter().enumerate() {
            if hist[i] > 0 {
                tl.insert(name.to_string(), serde_json::json!(hist[i]));
            }
        }
        replayed += ev;
        types_info = serde_json::json!({"cases": ev, "nontrivial": nt, "objects_total": objs, "labels": tl, "samples": tsamples,
            "payload_types": (0..crate::ext::NTYPES).map(crate::ext::type_name).collect::<Vec<_>>(),
            "description": "generated histories (new via Rc::new/From<T>/From<Box<T>>, clone, drop, adopt/unadopt, hubs of up to 600 adoptees, rings, Weak incl. Weak::new and raw round trips, try_unwrap, get_mut, make_mut, clone_from, increment/decrement_strong_count) on Rc<T> for each listed payload type, handles owned outside the values; same reference model and oracles as the script histories"});
    }
    types_failures.sort_by_key(|f| f.script.as_ref().map(|s| s.to_string().len()).unwrap_or(usize::MAX));
    if let Some(f) = types_failures.first() {
        if let Some(sv) = &f.script {
            let s: crate::ext::TypesCase = serde_json::from_value(sv.clone()).expect("unparsable types case");
            let r = <crate::ext::TypesKind as Kind>::run(&id, tier, &s);
            let (case, msg) = if r.outcome == Outcome::Violation {
                (s, r.msg)
            } else if let Some(fs) = &f.first_script {
                (serde_json::from_value(fs.clone()).expect("unparsable types case"), f.first_msg.clone())
            } else {
                (s, f.msg.clone())
            };
            let path = save_found(&id, &case, &msg);
            violations.push((path, msg));
        }
    }
    let _ = std::fs::remove_dir_all(&run_dir);

    // smallest shrunk failure becomes the replay file
    failures.sort_by_key(|f| f.script.as_ref().map(|s| s.to_string().len()).unwrap_or(usize::MAX));
    if let Some(f) = failures.first() {
        if let Some(sv) = &f.script {
            // re-judge the shrunk case; fall back to the first failing case
            let s: K::Case = serde_json::from_value(sv.clone()).expect("worker returned an unparsable case");
            let r = K::run(&id, tier, &s);
            if r.outcome == Outcome::Violation {
                let path = save_found(&id, &s, &r.msg);
                violations.push((path, r.msg));
            } else if let Some(fs) = &f.first_script {
                let fs: K::Case = serde_json::from_value(fs.clone()).expect("worker returned an unparsable case");
                let path = save_found(&id, &fs, &f.first_msg);
                violations.push((path, f.first_msg.clone()));
            }
        }
    }
    if merged.internal > 0 {
        undecided.push(format!("{} case(s) ended in a harness-internal error: {:?}", merged.internal, merged.internal_msgs.iter().take(2).collect::<Vec<_>>()));
    }
    if merged.timeout > 0 {
        undecided.push(format!("{} case(s) hit the watchdog: {:?}", merged.timeout, merged.timeout_scripts.iter().take(1).collect::<Vec<_>>()));
    }
    if merged.known > 0 && known_lines.is_empty() {
        // generated cases matched a listed signature although its example did not run
        for k in known.known.iter().filter(|k| k.property == id) {
            known_lines.push(format!("KNOWN-FINDING: property={} {} [{}]", id, k.what, k.id));
        }
    }

    // 2c. E2 campaign results (run by ./check before this binary in the thorough tier)
    let mut fuzz_info = serde_json::json!(null);
    if let Some(fp) = arg(args, "--fuzz-summary") {
        if let Ok(txt) = std::fs::read_to_string(fp) {
            let lines: Vec<&str> = txt.lines().filter(|l| l.starts_with("FUZZ:") || l.starts_with("fuzzjudge") || l.starts_with("VIOLATION")).collect();
            for l in &lines {
                if let Some(rest) = l.strip_prefix("VIOLATION ") {
                    if let Some(pos) = rest.find("replay=") {
                        violations.push((PathBuf::from(&rest[pos + 7..]), "found by the libFuzzer/ASan campaign (E2) and reproduced by the fork executor (E1)".to_string()));
                    }
                }
            }
            if lines.is_empty() {
                undecided.push(format!("fuzz campaign produced no summary: {}", txt.lines().last().unwrap_or("")));
            }
            fuzz_info = serde_json::json!({"engine": "cargo-fuzz/libFuzzer + AddressSanitizer, in-process interpreter+model+judge, seeds from fuzz/seeds.tar.gz", "log": lines});
        }
    }

    // 3. evidence
    let wall = t0.elapsed().as_secs_f64();
    let mut labels = serde_json::Map::new();
    for (i, name) in K::label_names().iter().enumerate() {
        if i < 64 && merged.label_hist[i] > 0 && !name.is_empty() {
            labels.insert(name.to_string(), serde_json::json!(merged.label_hist[i]));
        }
    }
    let c = &merged.counters;
    let ev = serde_json::json!({
        "property_id": id,
        "tier": if tier == Tier::Thorough { "thorough" } else { "quick" },
        "seed": seed,
        "level": if id == "C11" { "fault_enumeration" } else { "exploration" },
        "coverage": {
            "evaluations": merged.evaluations + replayed,
            "distinct_nontrivial": hashes.len(),
            "rule": p.rule,
            "samples": merged.samples,
            "exhaustive": false,
            "generated_cases": merged.evaluations,
            "replayed_files": replayed,
            "replays": replay_notes,
            "outcomes": {
                "pass": merged.pass,
                "expected_abort": merged.expected_abort,
                "violation": merged.violations,
                "inconclusive_other_property": merged.other_view,
                "passed_but_another_propertys_view_failed_and_was_tolerated": merged.soft_other,
                "ended_by_known_finding": merged.known,
                "arena_exhausted": merged.exhausted,
                "watchdog": merged.timeout,
                "skipped_after_watchdog": merged.skipped_after_watchdog,
                "internal_error": merged.internal,
            },
            "inconclusive_examples": merged.other_msgs.iter().take(3).collect::<Vec<_>>(),
            "known_finding_examples": merged.kf_msgs.iter().take(2).collect::<Vec<_>>(),
            "labels": labels,
            "totals": K::totals(c),
            "small_scope_sweep": sweep_info,
            "large_scale_cases": big_info,
            "payload_type_matrix": types_info,
            "e2_libfuzzer_campaign": fuzz_info,
            "workers": nworkers,
            "workers_on_plain_release_profile_and_crate_without_default_features": alt_workers,
            "layouts_per_case": if tier == Tier::Thorough { p.layouts_thorough } else { p.layouts_quick },
        },
        "assumptions": K::assumptions(),
        "wall_s": wall,
        "violations": violations.len(),
    });
    let evdir = root().join("evidence");
    let _ = std::fs::create_dir_all(&evdir);
    let _ = std::fs::write(evdir.join(format!("{}.json", id)), serde_json::to_string_pretty(&ev).unwrap());

    // 4. report
    println!(
        "{} {}: {} generated + {} replayed, {} distinct non-trivial, pass={} known={} inconclusive_other={} exhausted={} watchdog={} internal={} in {:.1}s",
        id,
        if tier == Tier::Thorough { "thorough" } else { "quick" },
        merged.evaluations,
        replayed,
        hashes.len(),
        merged.pass + merged.expected_abort,
        merged.known,
        merged.other_view,
        merged.exhausted,
        merged.timeout,
        merged.internal,
        wall
    );
    for l in &known_lines {
        println!("{}", l);
    }
    if !violations.is_empty() {
        for (path, msg) in &violations {
            println!("  {}", msg);
            println!("VIOLATION property={} replay={}", id, path.display());
        }
        return 1;
    }
    if !undecided.is_empty() {
        for u in &undecided {
            eprintln!("UNDECIDED: {}", u);
        }
        return 2;
    }
    0
}

pub fn special(id: &str, _args: &[String]) -> i32 {
    eprintln!("{} runner not built yet", id);
    2
}
