//! G2: small-scope sweeper (DESIGN §3.6).  Enumerates, instead of sampling:
//!
//!  family A: every adoption multigraph on n = 1..3 objects with multiplicity
//!            <= 2 per ordered pair (self pairs through a clone included)
//!            x {each creation root dropped in the drop phase / kept and used
//!            afterwards} x {a Weak to every object / none} x every order of
//!            dropping the roots;
//!  family B: n = 2 with multiplicity <= 3, one optional unrecorded stored
//!            handle and one optional same-handle (loopback) self adoption.
//!
//! Each case is a `Script` (so every failure is an ordinary replay file) run
//! through the same fork executor, model and judge as the generated search.

use crate::script::*;

#[derive(Clone, Debug)]
pub struct SweepCase {
    pub n: usize,
    /// multiplicity per ordered pair, row-major n x n
    pub mult: Vec<u8>,
    pub keep: u8,
    pub weak: bool,
    pub order: Vec<usize>,
    /// optional unrecorded stored handle (owner, target)
    pub unrecorded: Option<(usize, usize)>,
    /// optional loopback adoption on this object (stores an extra self handle
    /// and records it through the same instance)
    pub loopback: Option<usize>,
}

fn perms(n: usize) -> Vec<Vec<usize>> {
    fn rec(cur: &mut Vec<usize>, used: &mut Vec<bool>, n: usize, out: &mut Vec<Vec<usize>>) {
        if cur.len() == n {
            out.push(cur.clone());
            return;
        }
        for i in 0..n {
            if !used[i] {
                used[i] = true;
                cur.push(i);
                rec(cur, used, n, out);
                cur.pop();
                used[i] = false;
            }
        }
    }
    let mut out = vec![];
    rec(&mut vec![], &mut vec![false; n], n, &mut out);
    out
}

/// Total number of cases of the sweep.
pub fn total() -> u64 {
    let mut t = 0u64;
    for n in 1..=3usize {
        let graphs = 3u64.pow((n * n) as u32);
        t += graphs * (1u64 << n) * 2 * perms(n).len() as u64;
    }
    // family B
    t += 4u64.pow(4) * 5 * 3 * 4 * 2 * 2;
    t
}

/// Decode case number `k` (0 <= k < total()).
pub fn case(mut k: u64) -> SweepCase {
    for n in 1..=3usize {
        let graphs = 3u64.pow((n * n) as u32);
        let ps = perms(n);
        let size = graphs * (1u64 << n) * 2 * ps.len() as u64;
        if k < size {
            let mut g = k % graphs;
            k /= graphs;
            let keep = (k % (1 << n)) as u8;
            k /= 1 << n;
            let weak = k % 2 == 1;
            k /= 2;
            let order = ps[k as usize].clone();
            let mut mult = vec![0u8; n * n];
            for m in mult.iter_mut() {
                *m = (g % 3) as u8;
                g /= 3;
            }
            return SweepCase { n, mult, keep, weak, order, unrecorded: None, loopback: None };
        }
        k -= size;
    }
    let n = 2;
    let mut g = k % 256;
    k /= 256;
    let un = (k % 5) as usize;
    k /= 5;
    let lb = (k % 3) as usize;
    k /= 3;
    let keep = (k % 4) as u8;
    k /= 4;
    let weak = k % 2 == 1;
    k /= 2;
    let order = if k % 2 == 0 { vec![0, 1] } else { vec![1, 0] };
    let mut mult = vec![0u8; 4];
    for m in mult.iter_mut() {
        *m = (g % 4) as u8;
        g /= 4;
    }
    SweepCase {
        n,
        mult,
        keep,
        weak,
        order,
        unrecorded: if un == 0 { None } else { Some(((un - 1) / 2, (un - 1) % 2)) },
        loopback: if lb == 0 { None } else { Some(lb - 1) },
    }
}

pub fn to_script(c: &SweepCase, k: u64) -> Script {
    let n = c.n;
    let mut ops: Vec<Op> = vec![];
    for _ in 0..n {
        ops.push(Op::New(vec![]));
    }
    // handle list = n roots followed by the slots stored so far
    let mut len = n;
    let mut flip = 0u8;
    for a in 0..n {
        for b in 0..n {
            for _ in 0..c.mult[a * n + b] {
                flip ^= 1;
                ops.push(Op::Store { owner: sel_for(a, len), target: sel_for(b, len), adopt: 1 + flip });
                len += 1;
            }
        }
    }
    if let Some((a, b)) = c.unrecorded {
        ops.push(Op::Store { owner: sel_for(a, len), target: sel_for(b, len), adopt: 0 });
        len += 1;
    }
    if let Some(a) = c.loopback {
        // owner handle == source handle (the same root instance): loopback record
        ops.push(Op::Store { owner: sel_for(a, len), target: sel_for(a, len), adopt: 1 });
        len += 1;
    }
    let _ = len;
    if c.weak {
        for i in 0..n {
            // roots come first in the handle list
            ops.push(Op::Downgrade(sel_for(i, len)));
        }
    }
    // drop phase: roots still present, in creation order
    let mut present: Vec<usize> = (0..n).collect();
    for &x in &c.order {
        if c.keep & (1 << x) != 0 {
            continue;
        }
        let idx = present.iter().position(|&y| y == x).unwrap();
        ops.push(Op::DropRoot(sel_for(idx, present.len())));
        present.remove(idx);
    }
    ops.push(Op::Probe);
    if c.weak {
        for i in 0..n {
            ops.push(Op::Upgrade(sel_for(i, n)));
        }
        ops.push(Op::Probe);
    }
    Script { mode: Mode::Safe, layout_seed: k.wrapping_mul(0x9E37_79B9_7F4A_7C15), ops, cleanup: vec![0], arena_seed: None }
}

// ---- C11: fault enumeration ------------------------------------------------------
//
// Every adoption graph on n = 1..3 objects with multiplicity <= 1 per ordered
// pair (self pairs included) x kept/dropped roots x Weak to every object or none
// x every drop order x *which object's destructor panics* (one armed panic per
// teardown).  Which position in the destruction order that object takes depends
// on the table order, which varies with the per-case layout seed, so across the
// sweep every member position of every small group shape panics.

pub fn total_c11() -> u64 {
    let mut t = 0u64;
    for n in 1..=3usize {
        let graphs = 2u64.pow((n * n) as u32);
        t += graphs * (1u64 << n) * 2 * perms(n).len() as u64 * n as u64 * 2;
    }
    t
}

pub fn script_c11(mut k: u64) -> (SweepCase, usize, Script) {
    let k0 = k;
    for n in 1..=3usize {
        let graphs = 2u64.pow((n * n) as u32);
        let ps = perms(n);
        let size = graphs * (1u64 << n) * 2 * ps.len() as u64 * n as u64 * 2;
        if k < size {
            let mut g = k % graphs;
            k /= graphs;
            let keep = (k % (1 << n)) as u8;
            k /= 1 << n;
            let weak = k % 2 == 1;
            k /= 2;
            let order = ps[(k % ps.len() as u64) as usize].clone();
            k /= ps.len() as u64;
            let who = (k % n as u64) as usize;
            k /= n as u64;
            let observe_too = k % 2 == 1;
            let mut mult = vec![0u8; n * n];
            for m in mult.iter_mut() {
                *m = (g % 2) as u8;
                g /= 2;
            }
            let c = SweepCase { n, mult, keep, weak, order, unrecorded: None, loopback: None };
            let mut s = to_script(&c, k0);
            // arm the panic in object `who` (the i-th New op)
            let mut seen = 0;
            for op in s.ops.iter_mut() {
                if let Op::New(d) = op {
                    if seen == who {
                        if observe_too {
                            d.push(DAct::Observe);
                        }
                        d.push(DAct::Panic);
                    } else if observe_too {
                        d.push(DAct::UpgradeOwnWeak(0));
                    }
                    seen += 1;
                }
            }
            return (c, who, s);
        }
        k -= size;
    }
    unreachable!()
}

pub fn total_for(id: &str) -> u64 {
    if id == "C11" {
        total_c11()
    } else {
        total()
    }
}

pub fn script_for(id: &str, k: u64) -> (String, Script) {
    if id == "C11" {
        let (c, who, s) = script_c11(k);
        (format!("{:?} panic in destructor of object {}", c, who), s)
    } else {
        let c = case(k);
        let s = to_script(&c, k);
        (format!("{:?}", c), s)
    }
}
