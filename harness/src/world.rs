//! Global per-case state, the instrumented payload type and the online judge
//! (DESIGN §3.2, §3.3).  Everything here runs inside the forked child, which is
//! single-threaded, so a plain global with interior mutability is used.

use crate::arena::{self, track_off, track_on};
use crate::exec::{self, shared, violate, violate_soft, Phase, View};
use crate::model::*;
use crate::script::*;
use cactusref::{Rc, Weak};
use std::cell::{Cell, RefCell};
use std::mem::ManuallyDrop;

pub const CANARY: u64 = 0x5AFE_C0DE_0000_0000;

// ---- labels (bit positions) ------------------------------------------------
pub mod lab {
    pub const GROUP2: u32 = 0;
    pub const GROUP3: u32 = 1;
    pub const RULEB_REC: u32 = 2;
    pub const SELF_CLONE: u32 = 3;
    pub const LOOPBACK: u32 = 4;
    pub const PARALLEL: u32 = 5;
    pub const UNREC_EDGE: u32 = 6;
    pub const INOUT_NEQ: u32 = 7;
    pub const WEAK_AFTER: u32 = 8;
    pub const WEAK_INSIDE: u32 = 9;
    pub const SURVIVOR_USED: u32 = 10;
    pub const UNADOPT_ZERO: u32 = 11;
    pub const UNADOPT_UNMATCHED: u32 = 12;
    pub const DEATH_PEER_RECORDS: u32 = 13;
    pub const NESTED_COLLECT: u32 = 14;
    pub const DACT_IN_GROUP: u32 = 15;
    pub const PANIC_NOT_LAST: u32 = 16;
    pub const PLAIN_DEATH: u32 = 17;
    pub const RULEA_OBLIG2: u32 = 18;
    pub const CLEANUP_ZERO: u32 = 19;
    pub const WEAK_OUTLIVED: u32 = 20;
    pub const ELIDED: u32 = 21;
    pub const KEPT_AFTER_ELIDE: u32 = 22;
    pub const CONSUME_LINKED: u32 = 23;
    pub const EMPTY_DROP_HISTORY: u32 = 24;
    pub const DEAD_CLONE: u32 = 25;
    pub const DEAD_DROP: u32 = 26;
    pub const MULTI_PATH: u32 = 27;
    pub const COLLECT_NO_OBLIG: u32 = 28;
    pub const PANIC_INJECTED: u32 = 29;
    pub const MULTI_ADOPTED: u32 = 30;
    pub const RULEA_SELF: u32 = 31;
    pub const DACT_CHANGED_MODEL: u32 = 32;
    pub const WEAK_DEAD_QUERY: u32 = 33;
    pub const COUNTS_AFTER_COLLECT: u32 = 34;
    pub const EMPTY_DROP_OTHERS_REC: u32 = 35;
    pub const DEAD_CLONE_UNINIT: u32 = 36;
    pub const DEAD_CLONE_ZERO: u32 = 37;
    pub const PANIC_RULEB: u32 = 38;
    pub const PANIC_PLAIN: u32 = 39;
    pub const WEAK_IN_VALUE: u32 = 40;
    pub const STALE_PURGED_BY_DEATH: u32 = 41;
    pub const KF_PREDICATE: u32 = 42;
    pub const TABLE_ORDER_SEEN: u32 = 43;
    pub const CLONE_PANIC: u32 = 44;
    pub const UNINIT_ADOPT: u32 = 45;
    pub const CLONE_FROM: u32 = 46;
    pub const CLONE_FROM_SAME: u32 = 47;
    pub const DEAD_CLONE_FROM: u32 = 48;
    pub const DEFAULT_PANIC: u32 = 49;
    pub const CLONE_REENTRANT: u32 = 50;
    pub const DEFAULT_CTOR: u32 = 51;
    pub const CLONE_RING_IN: u32 = 52;
    pub const CLONE_MAKES_UNIQUE: u32 = 53;
    pub const DROP_WHILE_UNWINDING: u32 = 54;
    pub const MAKEMUT_STORED: u32 = 55;
    pub const ALLOC_FAILURE_SURVIVED: u32 = 56;
    pub const ADDRESS_REUSED: u32 = 57;
    pub const WEAK_BEFORE_ASSUME_INIT: u32 = 58;
    pub const CLONE_VIA_UNINIT_TYPE: u32 = 59;
    pub const DTOR_TRY_UNWRAP: u32 = 61;
    pub const DEAD_HANDLE_DROPPED_LATER: u32 = 62;
    pub const NAMES: [&str; 63] = [
        "group>=2_collected",
        "group>=3_collected",
        "zero_count_death_with_records",
        "clone_self_adoption",
        "loopback_recorded",
        "parallel_adoption",
        "unrecorded_stored_handle",
        "member_indeg!=outdeg",
        "weak_used_after_collection",
        "weak_upgrade_inside_group_destructor",
        "survivor_with_records_used_after_collection",
        "unadopt_hit_zero",
        "unadopt_unmatched",
        "death_with_records_in_surviving_peer",
        "nested_collection",
        "destructor_action_in_group",
        "panic_member_not_last",
        "plain_death",
        "ruleA_obligation>=2_discharged",
        "cleanup_heap_zero",
        "weak_outlived_object",
        "elided_unadopt",
        "kept_after_elide",
        "consume_on_linked",
        "empty_table_drop_with_history",
        "dead_handle_clone",
        "dead_handle_drop",
        "two_teardown_paths",
        "collection_without_obligation",
        "panic_injected",
        "member_adopted>=2",
        "ruleA_self_adoption",
        "destructor_action_changed_model",
        "weak_query_on_dead",
        "counts_checked_after_collection",
        "empty_table_drop_while_others_recorded",
        "dead_clone_of_already_destroyed_peer",
        "dead_clone_of_condemned_peer_not_yet_destroyed",
        "panic_in_zero_count_path",
        "panic_in_plain_path",
        "weak_inside_value",
        "stale_record_purged_by_death",
        "known_finding_predicate",
        "table_order_observed",
        "payload_clone_panicked_in_make_mut",
        "adopted_before_assume_init",
        "clone_from",
        "clone_from_same_object",
        "clone_from_of_handle_to_destroyed_object",
        "default_default_panicked_inside_rc_default",
        "payload_clone_reentered_the_api_in_make_mut",
        "constructed_by_rc_default",
        "payload_clone_put_the_object_into_a_ring_and_dropped_its_outside_handles",
        "payload_clone_removed_every_other_handle_to_the_object",
        "handle_dropped_while_the_thread_is_unwinding",
        "make_mut_on_a_stored_handle",
        "injected_allocation_failure_handled_without_abort",
        "object_allocated_at_the_address_of_a_released_object",
        "weak_taken_before_assume_init",
        "destructor_cloned_through_the_maybeuninit_typed_handle",
        "",
        "destructor_called_try_unwrap_on_a_stored_handle_to_an_outsider",
        "handle_to_a_destroyed_peer_moved_out_by_a_destructor_and_dropped_after_the_teardown",
    ];
}

// ---- counters written to the shared page -----------------------------------
pub mod ctr {
    pub const OPS: usize = 0;
    pub const NOOPS: usize = 1;
    pub const OBJECTS: usize = 2;
    pub const COLLECTIONS: usize = 3;
    pub const MAX_GROUP: usize = 4;
    pub const RULEB_DEATHS: usize = 5;
    pub const PLAIN_DEATHS: usize = 6;
    pub const AUDITS: usize = 7;
    pub const SNAPSHOTS: usize = 8;
    pub const UPGRADES: usize = 9;
    pub const DACTS_RUN: usize = 10;
    pub const OBLIG_A: usize = 11;
    pub const OBLIG_B: usize = 12;
    pub const INERT_DROPS: usize = 13;
    pub const ARENA_BLOCKS: usize = 14;
    pub const COST_CHECKS: usize = 15;
    pub const TRACE_CALLS: usize = 16;
    pub const PANICS: usize = 17;
    pub const ORDER_HASH: usize = 18;
}

pub struct Cfg {
    pub mode: Mode,
    /// audit tables (H1) after every op
    pub audit_tables: bool,
    pub audit_leaks: bool,
    pub cost_checks: bool,
    /// evaluate known-finding predicates and end the case when one matches
    pub exclude_known: bool,
    /// collect a digest of per-op destroyed sets and counts (C09)
    pub digest: bool,
    pub strict_loopback: bool,
    /// `Node::clone` (used by make_mut on a shared value) does not copy the
    /// handles stored in the value (a hand-written Clone), instead of copying
    /// them (a derived Clone)
    pub shallow_clone: bool,
    /// 0: Clone works; 1: `Node::clone` panics at once; 2: it panics after it
    /// has cloned the stored handles
    pub clone_panics: u8,
    /// FULL histories that also use the handle-consuming ops (C09)
    pub allow_consume: bool,
    /// destructors may give a stored handle to an outsider up through try_unwrap
    pub dtor_unwrap: bool,
    /// destructors may move a stored handle out of their value instead of dropping it
    pub dtor_stash: bool,
    /// make_mut may be called in place on a handle stored inside a value
    pub slot_consume: bool,
    /// the payload's Clone (called by make_mut) runs the value's action script
    /// (re-entrant API use from inside make_mut)
    pub clone_reentrant: bool,
    /// Rc::default() constructs some objects; 2: the first attempt panics
    /// inside Default::default()
    pub default_ctor: u8,
}

pub struct World {
    pub cfg: Cfg,
    pub roots: RefCell<Vec<LoggedRc>>,
    pub wroots: RefCell<Vec<LoggedWeak>>,
    pub raws: RefCell<Vec<*const Node>>,
    pub wraws: RefCell<Vec<*const Node>>,
    pub loose: RefCell<Vec<Box<Node>>>,
    pub quarantine: RefCell<Vec<ManuallyDrop<Rc<Node>>>>,
    pub model: RefCell<Model>,
    pub addr2oid: RefCell<Vec<(usize, Oid)>>,
    /// handles to destroyed peers that a destructor moved out of its value: the
    /// program drops them after the teardown has finished (must be inert)
    pub dead_stash: RefCell<Vec<LoggedRc>>,
    pub labels: Cell<u64>,
    pub next_clone_id: Cell<Oid>,
    pub panic_armed: Cell<bool>,
    pub panic_fired: Cell<bool>,
    pub layout_lo: Cell<u64>,
    pub collected_once: Cell<bool>,
    pub destroyed_this_op: RefCell<Vec<Oid>>,
    pub dact_depth: Cell<u32>,
    /// (root index, old object) of a make_mut call in progress (clone branch)
    pub makemut: Cell<Option<(usize, Oid)>>,
    pub makemut_new: Cell<Oid>,
}

static mut WORLD: Option<World> = None;

#[allow(static_mut_refs)]
#[inline]
pub fn w() -> &'static World {
    unsafe { WORLD.as_ref().unwrap() }
}

#[allow(static_mut_refs)]
pub fn install_world(cfg: Cfg) {
    unsafe {
        WORLD = Some(World {
            cfg,
            roots: RefCell::new(Vec::with_capacity(64)),
            wroots: RefCell::new(Vec::with_capacity(64)),
            raws: RefCell::new(vec![]),
            wraws: RefCell::new(vec![]),
            loose: RefCell::new(vec![]),
            quarantine: RefCell::new(vec![]),
            model: RefCell::new(Model::default()),
            addr2oid: RefCell::new(vec![]),
            dead_stash: RefCell::new(vec![]),
            labels: Cell::new(0),
            next_clone_id: Cell::new(0),
            panic_armed: Cell::new(true),
            panic_fired: Cell::new(false),
            layout_lo: Cell::new(0),
            collected_once: Cell::new(false),
            destroyed_this_op: RefCell::new(vec![]),
            dact_depth: Cell::new(0),
            makemut: Cell::new(None),
            makemut_new: Cell::new(NONE),
        });
    }
}

#[inline]
pub fn label(bit: u32) {
    let wd = w();
    wd.labels.set(wd.labels.get() | (1u64 << bit));
    shared().labels = wd.labels.get();
}

#[inline]
pub fn has_label(bit: u32) -> bool {
    w().labels.get() & (1u64 << bit) != 0
}

#[inline]
pub fn count(i: usize, n: u64) {
    shared().counters[i] += n;
}

#[inline]
pub fn count_max(i: usize, n: u64) {
    let c = &mut shared().counters[i];
    if *c < n {
        *c = n;
    }
}

#[inline]
pub fn set_phase(p: Phase) -> u32 {
    let sh = shared();
    let prev = sh.phase;
    sh.phase = p as u32;
    prev
}

/// Run a call into the library: tracking on, phase = Lib.
#[inline]
pub fn lib<R>(f: impl FnOnce() -> R) -> R {
    let prev = set_phase(Phase::Lib);
    let r = {
        let _t = track_on();
        f()
    };
    shared().phase = prev;
    r
}

struct PhaseGuard(u32);
impl Drop for PhaseGuard {
    fn drop(&mut self) {
        shared().phase = self.0;
    }
}

// ---- payload ---------------------------------------------------------------

pub struct LoggedRc {
    pub h: ManuallyDrop<Rc<Node>>,
    pub target: Oid,
    /// object whose value holds this instance, NONE when held by the program
    pub owner: Cell<Oid>,
}

impl LoggedRc {
    pub fn new(h: Rc<Node>, target: Oid) -> LoggedRc {
        LoggedRc { h: ManuallyDrop::new(h), target, owner: Cell::new(NONE) }
    }
}

pub struct LoggedWeak {
    pub w: ManuallyDrop<Weak<Node>>,
    pub target: Oid,
    pub owner: Cell<Oid>,
}

impl LoggedWeak {
    pub fn new(wk: Weak<Node>, target: Oid) -> LoggedWeak {
        LoggedWeak { w: ManuallyDrop::new(wk), target, owner: Cell::new(NONE) }
    }
}

pub struct EndMarker(pub Cell<Oid>);

/// Over-aligned on purpose (32: the allocation header is 56 bytes, so the value
/// offset 64 is neither the header size nor the alignment): the value then does not start right after the
/// header of the allocation, which is the non-trivial case for everything that
/// converts between value pointers and allocation pointers (raw round trips).
#[repr(align(32))]
pub struct Node {
    pub id: Cell<Oid>,
    pub canary: Cell<u64>,
    pub dscript: Vec<DAct>,
    pub slots: RefCell<Vec<LoggedRc>>,
    pub weaks: RefCell<Vec<LoggedWeak>>,
    pub end: EndMarker,
}

impl Node {
    pub fn new(id: Oid, dscript: Vec<DAct>) -> Node {
        Node {
            id: Cell::new(id),
            canary: Cell::new(CANARY ^ id as u64),
            dscript,
            slots: RefCell::new(Vec::new()),
            weaks: RefCell::new(Vec::new()),
            end: EndMarker(Cell::new(id)),
        }
    }
    pub fn rename(&self, id: Oid) {
        self.id.set(id);
        self.canary.set(CANARY ^ id as u64);
        self.end.0.set(id);
        for s in self.slots.borrow().iter() {
            s.owner.set(id);
        }
        for s in self.weaks.borrow().iter() {
            s.owner.set(id);
        }
    }
}

thread_local! {
    /// arguments of the next `Node::default()` (id, destructor script, panic?)
    pub static NODE_STAGE: RefCell<Option<(Oid, Vec<DAct>, bool)>> = const { RefCell::new(None) };
}

impl Default for Node {
    /// Called by `Rc::<Node>::default()`: user code running inside a constructor.
    fn default() -> Node {
        let _t = track_off();
        let _p = PhaseGuard(set_phase(Phase::Harness));
        let (id, d, panic) = NODE_STAGE.with(|s| s.borrow_mut().take()).expect("Node::default without staged arguments");
        if panic {
            label(lab::DEFAULT_PANIC);
            std::panic::panic_any(crate::interp::Injected);
        }
        Node::new(id, d)
    }
}

impl Clone for Node {
    /// Only called by `Rc::make_mut` when the value is shared: the clone is a
    /// new object that owns fresh (unrecorded) handle instances.
    fn clone(&self) -> Node {
        let _t = track_off();
        let _p = PhaseGuard(set_phase(Phase::Harness));
        let wd = w();
        // fault injection: the payload's Clone panics before producing anything
        if wd.cfg.clone_panics == 1 {
            wd.panic_fired.set(true);
            label(lab::CLONE_PANIC);
            std::panic::panic_any(crate::interp::Injected);
        }
        if wd.cfg.clone_reentrant && wd.makemut.get().is_some() && wd.dact_depth.get() == 0 {
            crate::interp::run_clone_actions(self);
        }
        let new_id = wd.model.borrow_mut().new_obj(0, 0, !self.dscript.is_empty());
        let n = Node::new(new_id, self.dscript.clone());
        let shallow = wd.cfg.shallow_clone;
        for s in self.slots.borrow().iter().filter(|_| !shallow) {
            let c = lib(|| Rc::clone(&s.h));
            let lr = LoggedRc::new(c, s.target);
            lr.owner.set(new_id);
            n.slots.borrow_mut().push(lr);
            wd.model.borrow_mut().objs[new_id as usize].slots.push(s.target);
        }
        for s in self.weaks.borrow().iter().filter(|_| !shallow) {
            let c = {
                let _t = track_on();
                Weak::clone(&s.w)
            };
            let lw = LoggedWeak::new(c, s.target);
            lw.owner.set(new_id);
            n.weaks.borrow_mut().push(lw);
            wd.model.borrow_mut().objs[new_id as usize].wslots.push(s.target);
        }
        if wd.cfg.clone_panics == 2 {
            // the partially built clone is dropped by the unwind: it is a loose
            // value (never placed in an allocation)
            wd.panic_fired.set(true);
            label(lab::CLONE_PANIC);
            std::panic::panic_any(crate::interp::Injected);
        }
        wd.makemut_new.set(new_id);
        if let Some((_ri, old)) = wd.makemut.get() {
            // make_mut is about to overwrite (and thereby drop) the caller's
            // handle to the old object: the in-flight handle (last raw entry of
            // the model) now stands for the clone; open the bracket for the drop
            // of the old handle now, with the clone's handles already counted
            if let Some(last) = wd.model.borrow_mut().raws.last_mut() {
                *last = new_id;
            }
            on_hdrop_begin(old);
        }
        n
    }
}

impl Drop for LoggedRc {
    fn drop(&mut self) {
        let _t = track_off();
        let _p = PhaseGuard(set_phase(Phase::Harness));
        let target = self.target;
        let owner = self.owner.get();
        if owner != NONE {
            w().model.borrow_mut().remove_slot_instance(owner, target);
        }
        on_hdrop_begin(target);
        struct G(Oid);
        impl Drop for G {
            fn drop(&mut self) {
                let _t = track_off();
                let _p = PhaseGuard(set_phase(Phase::Harness));
                on_hdrop_end(self.0, std::thread::panicking());
            }
        }
        let _g = G(target);
        let prev = arena::set_ctx(arena::CtxKind::Drop, target, 0);
        lib(|| unsafe { ManuallyDrop::drop(&mut self.h) });
        arena::restore_ctx(prev);
    }
}

impl Drop for LoggedWeak {
    fn drop(&mut self) {
        let _t = track_off();
        let _p = PhaseGuard(set_phase(Phase::Harness));
        let owner = self.owner.get();
        if owner != NONE {
            w().model.borrow_mut().remove_wslot_instance(owner, self.target);
        }
        if self.target != NONE {
            let m = w().model.borrow();
            if m.objs[self.target as usize].st != St::Alive {
                label(lab::WEAK_AFTER);
                if m.weak(self.target) == 0 {
                    label(lab::WEAK_OUTLIVED);
                }
            }
        }
        let prev = set_phase(Phase::WeakCall);
        {
            let _t = track_on();
            unsafe { ManuallyDrop::drop(&mut self.w) };
        }
        shared().phase = prev;
    }
}

impl Drop for EndMarker {
    fn drop(&mut self) {
        let _t = track_off();
        let _p = PhaseGuard(set_phase(Phase::Harness));
        let id = self.0.get();
        let mut m = w().model.borrow_mut();
        m.time += 1;
        m.objs[id as usize].st = St::Dead;
    }
}

impl Drop for Node {
    fn drop(&mut self) {
        let _t = track_off();
        let _p = PhaseGuard(set_phase(Phase::Harness));
        let id = self.id.get();
        let ok = self.canary.get() == CANARY ^ id as u64 && (id as usize) < w().model.borrow().n();
        on_vbegin(id, ok);
        if !self.dscript.is_empty() {
            let ds = std::mem::take(&mut self.dscript);
            crate::interp::run_dacts(self, &ds);
        }
    }
}

// ---- the judge --------------------------------------------------------------

fn fmt_set(v: &[Oid]) -> String {
    format!("{{{}}}", v.iter().map(|x| x.to_string()).collect::<Vec<_>>().join(","))
}

pub fn on_hdrop_begin(target: Oid) {
    let wd = w();
    let mut m = wd.model.borrow_mut();
    m.time += 1;
    let st = m.objs[target as usize].st;
    let mut b = Bracket {
        target,
        inert: false,
        covered: false,
        rule: 0,
        obligation: vec![],
        vchildren: vec![],
        first_v_time: 0,
        pending_weak: vec![],
        cost: Cost::default(),
        had_records: false,
        lib_counters: cactusref::__verif::counters(),
    };
    if st != St::Alive {
        b.inert = true;
        count(ctr::INERT_DROPS, 1);
        if wd.dact_depth.get() > 0 {
            label(lab::DEAD_DROP);
        }
    } else if m.in_open_obligation(target) {
        b.covered = true;
    } else {
        // known-finding predicates are evaluated before the drop is executed
        if wd.cfg.exclude_known {
            if let Some(msg) = crate::known::predicate_before_drop(&m, target) {
                drop(m);
                label(lab::KF_PREDICATE);
                exec::end_known_finding(crate::known::KF_C13_ELIDE, &msg);
            }
        }
        b.had_records = m.has_records(target);
        let s = m.strong(target);
        if s == 0 {
            b.rule = 2;
            b.obligation = vec![target];
            count(ctr::OBLIG_B, 1);
        } else if wd.cfg.mode == Mode::Elide && !m.ledger_clean() {
            // stale records make rule A unsound as an oracle; the documented
            // algorithm's decision is used as a *prediction* only (rule 3: never
            // checked), so that drops of members' handles to each other during
            // the teardown are recognised as covered
            if let Some(g) = m.documented_condemns(target) {
                b.rule = 3;
                b.obligation = g;
            }
        } else {
            if let Some(c) = m.rule_a(target) {
                count(ctr::OBLIG_A, 1);
                for &t in &c {
                    if m.in_degree(t) != m.out_degree(t) {
                        label(lab::INOUT_NEQ);
                    }
                    if m.in_degree(t) >= 2 {
                        label(lab::MULTI_ADOPTED);
                    }
                    if m.rec(t, t) > 0 {
                        label(lab::RULEA_SELF);
                    }
                }
                b.rule = 1;
                b.obligation = c;
            } else if m.has_pair_records(target) {
                // a collection attempt blocked: note partially recorded edges
                let c = m.closure(target);
                if c.iter().any(|&v| c.iter().any(|&t| m.held(v, t) > m.rec(v, t))) {
                    label(lab::UNREC_EDGE);
                }
            }
        }
        if wd.cfg.cost_checks {
            // C14: "currently has no recorded adoption" is taken from the
            // ledger (a table entry with count zero is not a recorded adoption)
            let empty = !b.had_records;
            b.cost = Cost {
                table_empty: empty,
                trace_calls: cactusref::__verif::counters()[0],
                allocs: arena::st().n_alloc,
                frees: arena::st().n_free,
                valid: true,
            };
        }
    }
    m.stack.push(b);
}

pub fn on_vbegin(id: Oid, canary_ok: bool) {
    let wd = w();
    let mut m = wd.model.borrow_mut();
    m.time += 1;
    if !canary_ok {
        drop(m);
        violate(View::Mem, &format!("destructor invoked on a corrupted value (claimed id {})", id));
    }
    let st = m.objs[id as usize].st;
    if st != St::Alive {
        drop(m);
        violate(View::Mem, &format!("destructor of object {} ran although it was already {:?}", id, st));
    }
    // C06: a handle the program holds directly must report the number of
    // existing handles; if the library is destroying the object although it is
    // held, the count read through that handle is already wrong here
    if let Some(ri) = m.roots.iter().position(|&r| r == id) {
        if let Ok(roots) = wd.roots.try_borrow() {
            if let Some(lr) = roots.get(ri) {
                if lr.target == id {
                    let prev = set_phase(Phase::HeldDeref);
                    let sc = Rc::strong_count(&lr.h);
                    shared().phase = prev;
                    let ms = m.strong(id);
                    if sc != ms {
                        violate_soft(
                            View::Count,
                            &format!("object {}: strong_count read through a held handle is {} but {} strong handle instances exist (the object is being destroyed while held)", id, sc, ms),
                        );
                    }
                }
            }
        }
    }
    let (seen, _) = m.reach();
    if seen[id as usize] {
        let msg = format!(
            "object {} destroyed while reachable from handles the program holds (roots {:?}, strong={}, recorded adopters {:?})",
            id,
            m.roots,
            m.strong(id),
            m.r.iter().filter(|(&(_, b), _)| b == id).map(|(&(a, _), &c)| (a, c)).collect::<Vec<_>>()
        );
        drop(m);
        violate(View::Premature, &msg);
    }
    m.objs[id as usize].st = St::Dying;
    wd.destroyed_this_op.borrow_mut().push(id);
    // records in surviving peers?
    let peers_survive = m
        .r
        .iter()
        .any(|(&(a, b), &c)| c > 0 && ((a == id && b != id && m.objs[b as usize].st == St::Alive) || (b == id && a != id && m.objs[a as usize].st == St::Alive)));
    let t = m.time;
    let depth = m.stack.len();
    let mut cost_violation: Option<String> = None;
    if let Some(b) = m.stack.last_mut() {
        if b.vchildren.is_empty() {
            b.first_v_time = t;
        }
        b.vchildren.push(id);
        if b.cost.valid && b.cost.table_empty && b.target == id {
            count(ctr::COST_CHECKS, 1);
            let tc = cactusref::__verif::counters()[0];
            let al = arena::st().n_alloc;
            if tc != b.cost.trace_calls || al != b.cost.allocs {
                cost_violation = Some(format!(
                    "dropping the last handle of object {} with empty bookkeeping ran {} trace(s) and {} allocation(s) before its destructor",
                    id,
                    tc - b.cost.trace_calls,
                    al - b.cost.allocs
                ));
            }
        }
        let n = b.vchildren.len();
        if n >= 2 {
            label(lab::GROUP2);
            wd.collected_once.set(true);
            if depth > 1 || wd.dact_depth.get() > 0 {
                label(lab::NESTED_COLLECT);
            }
        }
        if n >= 3 {
            label(lab::GROUP3);
        }
        count_max(ctr::MAX_GROUP, n as u64);
    }
    if let Some(msg) = cost_violation {
        violate_soft(View::Cost, &msg);
    }
    if peers_survive {
        label(lab::DEATH_PEER_RECORDS);
    }
    if wd.cfg.mode == Mode::Elide {
        // stale record (recorded > held) purged by the death of one end
        let stale = m.r.iter().any(|(&(a, b), &c)| (a == id || b == id) && c > m.held(a, b));
        if stale {
            label(lab::STALE_PURGED_BY_DEATH);
        }
    }
    m.purge(id);
}

pub fn on_hdrop_end(target: Oid, panicking: bool) {
    let wd = w();
    let mut m = wd.model.borrow_mut();
    m.time += 1;
    let b = m.stack.pop().expect("bracket stack underflow");
    debug_assert_eq!(b.target, target);
    let after = cactusref::__verif::counters();
    // classify the teardown path(s) taken by this bracket from the hook counters
    let group = b.vchildren.len();
    if group > 0 {
        if b.rule == 2 && b.vchildren[0] == target {
            if b.had_records {
                label(lab::RULEB_REC);
                count(ctr::RULEB_DEATHS, 1);
                m.objs[target as usize].death_path = 2;
            } else {
                label(lab::PLAIN_DEATH);
                count(ctr::PLAIN_DEATHS, 1);
                m.objs[target as usize].death_path = 1;
            }
        } else {
            count(ctr::COLLECTIONS, 1);
            wd.collected_once.set(true);
            for &c in &b.vchildren {
                m.objs[c as usize].death_path = 3;
            }
        }
        let _ = after;
    }
    if panicking {
        for &c in &b.vchildren {
            m.objs[c as usize].panicked = true;
        }
        if b.vchildren.contains(&target) || group > 0 {
            m.objs[target as usize].panicked = true;
        }
        // the teardown was interrupted: its memory may leak (C11) and pending
        // Weak observations are dropped with it; but every member's destructor
        // has still run by now (the library's value buffer keeps destroying the
        // remaining members while the panic propagates), so the obligation of
        // C03 is checked below as usual
    }
    if b.inert && !b.vchildren.is_empty() {
        let msg = format!(
            "dropping a handle to already destroyed object {} ran destructors of {}",
            target,
            fmt_set(&b.vchildren)
        );
        drop(m);
        violate(View::Mem, &msg);
    }
    if !b.obligation.is_empty() && b.rule != 3 {
        let missing: Vec<Oid> = b.obligation.iter().copied().filter(|&t| m.objs[t as usize].st == St::Alive).collect();
        if !missing.is_empty() {
            let msg = if b.rule == 2 {
                format!("last strong handle of object {} dropped but it was not destroyed before the drop returned", target)
            } else {
                format!(
                    "drop of a handle to {} orphaned the adopted group {} (every handle to every member is a recorded adoption from a member) but {} were not destroyed before the drop returned",
                    target,
                    fmt_set(&b.obligation),
                    fmt_set(&missing)
                )
            };
            violate_soft(View::Orphan, &msg);
        }
        if missing.is_empty() && b.rule == 1 && b.obligation.len() >= 2 {
            label(lab::RULEA_OBLIG2);
        }
    } else if !b.inert && !b.covered && group >= 2 {
        label(lab::COLLECT_NO_OBLIG);
    }
    for &(t, is_some) in b.pending_weak.iter().filter(|_| !panicking) {
        let destroyed = m.objs[t as usize].st != St::Alive;
        if is_some && destroyed {
            violate_soft(View::Weak, &format!("Weak::upgrade returned a handle to object {} from inside a destructor of the group it was being destroyed with", t));
        }
        if !is_some && !destroyed {
            violate_soft(View::Weak, &format!("Weak::upgrade returned None for object {} although it was not destroyed", t));
        }
    }
    if !panicking && b.cost.valid && b.cost.table_empty && b.vchildren.is_empty() {
        count(ctr::COST_CHECKS, 1);
        let tc = after[0];
        let (al, fr) = (arena::st().n_alloc, arena::st().n_free);
        if tc != b.cost.trace_calls || al != b.cost.allocs || fr != b.cost.frees {
            let msg = format!(
                "dropping a handle to live object {} with empty bookkeeping ran {} trace(s), {} allocation(s), {} free(s)",
                target,
                tc - b.cost.trace_calls,
                al - b.cost.allocs,
                fr - b.cost.frees
            );
            violate_soft(View::Cost, &msg);
        }
        if m.objs[target as usize].ever_recorded {
            label(lab::EMPTY_DROP_HISTORY);
        }
        if !m.r.is_empty() {
            label(lab::EMPTY_DROP_OTHERS_REC);
        }
    }
}

/// C05: judge the result of `Weak::upgrade` on a Weak to `t`.
/// Returns true if the (Some) handle may be adopted as a root.
pub fn on_upgrade(t: Oid, is_some: bool) -> bool {
    let wd = w();
    let mut m = wd.model.borrow_mut();
    count(ctr::UPGRADES, 1);
    if t == NONE {
        if is_some {
            violate_soft(View::Weak, "Weak::new().upgrade() returned Some");
        }
        return false;
    }
    let st = m.objs[t as usize].st;
    if st != St::Alive {
        label(lab::WEAK_DEAD_QUERY);
        if wd.collected_once.get() {
            label(lab::WEAK_AFTER);
        }
        if is_some {
            violate_soft(View::Weak, &format!("Weak::upgrade returned a handle to object {} whose value is already {:?}", t, st));
        }
        return false;
    }
    // which open bracket (if any) has started destroying a group that `t` is predicted to be part of?
    let idx = m.stack.iter().position(|b| b.obligation.contains(&t) && !b.vchildren.is_empty());
    match idx {
        None => {
            if !is_some {
                violate_soft(View::Weak, &format!("Weak::upgrade returned None for live object {}", t));
            }
            true
        }
        Some(i) => {
            label(lab::WEAK_INSIDE);
            m.stack[i].pending_weak.push((t, is_some));
            false
        }
    }
}

pub fn oid_of_addr(addr: usize) -> Option<Oid> {
    w().addr2oid.borrow().iter().rev().find(|&&(a, _)| a == addr).map(|&(_, o)| o)
}
