//! The script language (DESIGN §3.1): what is generated, shrunk and replayed.
//!
//! All selectors are `u16` values mapped monotonically (`sel * len >> 16`)
//! onto the currently valid choices, so every op is valid by construction and
//! shrinking does not stall.  An op with no valid choice is a counted no-op.

use serde::{Deserialize, Serialize};

#[derive(Clone, Copy, Debug, PartialEq, Eq, Serialize, Deserialize)]
pub enum Mode {
    /// contract-respecting: recorded <= held at all times
    Safe,
    /// every stored handle is adopted on store and unadopted on removal
    Full,
    /// Safe plus elided-unadopt removals (C13's domain)
    Elide,
    /// Safe plus the handle-consuming ops on linked objects (C12)
    Consume,
    /// no adopt / unadopt at all
    NoAdopt,
}

#[derive(Clone, Debug, PartialEq, Eq, Serialize, Deserialize)]
pub enum Op {
    /// `Rc::new(Node{..})`; the new handle becomes a root
    New(Vec<DAct>),
    /// `Rc::new_uninit()`, write the value, store a clone of handle `target` in
    /// it and record the adoption while the new object is still
    /// `Rc<MaybeUninit<T>>`, then `assume_init`; the new handle becomes a root
    NewUninitAdopted { target: u16, loopback: bool },
    /// clone the handle instance selected by `h`; the clone becomes a root
    CloneH(u16),
    /// `Clone::clone_from(&mut root[dst], &handle[src])`: the root is
    /// overwritten with a clone of another handle instance; its old handle
    /// instance is released by the call (not by `Drop` of a binding)
    CloneFrom { dst: u16, src: u16 },
    /// drop root `r`
    DropRoot(u16),
    /// drop, one after the other, every root that points into the recorded
    /// adoption closure of the object the selected handle points to (makes
    /// mid-history orphaning likely)
    DropClosureRoots(u16),
    /// clone handle `target`, store the clone in the value of the object that
    /// handle `owner` points to. adopt: 0 no, 1 before push (args: owner
    /// handle, the source handle), 2 after push (args: owner handle, the
    /// stored handle itself)
    Store { owner: u16, target: u16, adopt: u8 },
    /// record one still unrecorded stored handle: selector over the
    /// (owner, stored handle) pairs with spare capacity
    AdoptSlot { pick: u16, same_instance: bool },
    /// `adopt_unchecked(h, h)` with the very same handle instance for both
    /// arguments (what the repo's own tests do): a loopback record, documented
    /// to have no effect; allowed at any time
    LoopbackAdopt(u16),
    /// `Rc::unadopt(a, b)` on two arbitrary handle instances (redundant and
    /// unmatched calls allowed); if both selectors pick the same instance this
    /// is the loopback form
    Unadopt { a: u16, b: u16 },
    /// take stored handle `slot` out of the value of the object `owner` points
    /// to; `unadopt`: call unadopt first; `keep`: keep it as a root, else drop
    Remove { owner: u16, slot: u16, unadopt: bool, keep: bool },
    /// take every stored handle that points to the selected object out of every
    /// accessible value (same rules as `Remove` for each)
    StripHandlesTo { target: u16, unadopt: bool, keep: bool },
    /// take stored handles out of one value, from the end, until `leave` remain
    /// (`owner >= 0x8000`: the accessible object with the most stored handles,
    /// i.e. the hub; else the object the selected handle points to)
    ClearSlots { owner: u16, leave: u8, unadopt: bool, keep: bool },
    /// drop all roots of the selected object except one (leads to the
    /// sole-handle states try_unwrap / make_mut / get_mut care about)
    UniqueRoot(u16),
    Downgrade(u16),
    CloneWeak(u16),
    /// `Clone::clone_from(&mut weak[dst], &weak[src])`
    WeakCloneFrom { dst: u16, src: u16 },
    DropWeak(u16),
    Upgrade(u16),
    StoreWeak { owner: u16, w: u16 },
    RemoveWeak { owner: u16, slot: u16 },
    WeakNew,
    TryUnwrap(u16),
    MakeMut(u16),
    GetMut(u16),
    IntoRaw(u16),
    FromRaw(u16),
    IncStrong(u16),
    DecStrong(u16),
    DropLoose(u16),
    /// `Weak::into_raw` on a Weak the program holds / `Weak::from_raw` back
    WeakIntoRaw(u16),
    WeakFromRaw(u16),
    /// apply `op` k times (high multiplicities, many Weak handles, large
    /// counts, link tables that grow across several rehash boundaries)
    Repeat { op: Box<Op>, k: u8 },
    /// non-mutating observations on everything accessible
    Probe,
}

/// Actions run by a payload destructor (C10 / C11 / C16).
#[derive(Clone, Debug, PartialEq, Eq, Serialize, Deserialize)]
pub enum DAct {
    /// any non-consuming top-level op, applied re-entrantly to the roots
    Do(Box<Op>),
    UpgradeOwnWeak(u16),
    CloneOwnSlot(u16),
    DropOwnSlot(u16),
    /// `Rc::downgrade` on a handle stored in the dying value; the Weak escapes
    /// (kept by the program)
    DowngradeOwnSlot(u16),
    Observe,
    Panic,
}

#[derive(Clone, Debug, PartialEq, Eq, Serialize, Deserialize)]
pub struct Script {
    pub mode: Mode,
    pub layout_seed: u64,
    pub ops: Vec<Op>,
    /// drop all roots / weaks in this (selector) order at the end and apply the
    /// final leak accounting (C04)
    pub cleanup: Vec<u16>,
    /// C09: the heap layout of this run, when it differs from the one derived
    /// from `layout_seed` (every other use of `layout_seed` - constructor
    /// choice, payload Clone behaviour, log level, ... - is part of the call
    /// sequence and stays the same across the layouts of one case)
    #[serde(default, skip_serializing_if = "Option::is_none")]
    pub arena_seed: Option<u64>,
}

impl Script {
    pub fn to_json(&self) -> String {
        serde_json::to_string(self).unwrap()
    }
    pub fn from_json(s: &str) -> Result<Script, String> {
        serde_json::from_str(s).map_err(|e| e.to_string())
    }
    /// Compact one-line rendering for evidence samples.
    pub fn compact(&self) -> String {
        let mut s = format!("{:?}/L{:x}:", self.mode, self.layout_seed & 0xffff);
        for op in &self.ops {
            s.push(' ');
            s.push_str(&op_compact(op));
        }
        if !self.cleanup.is_empty() {
            s.push_str(&format!(" | cleanup x{}", self.cleanup.len()));
        }
        s
    }
    pub fn hash(&self) -> u64 {
        // FNV-1a over the JSON form: stable across runs and processes.
        let mut h: u64 = 0xcbf2_9ce4_8422_2325;
        for b in self.to_json().bytes() {
            h ^= b as u64;
            h = h.wrapping_mul(0x1_0000_0001_b3);
        }
        h
    }
}

pub fn op_compact(op: &Op) -> String {
    match op {
        Op::New(d) if d.is_empty() => "New".into(),
        Op::New(d) => format!("New{{{}}}", d.iter().map(dact_compact).collect::<Vec<_>>().join(",")),
        Op::NewUninitAdopted { target, loopback } => format!("NewUninitAdopted(<-{}{})", target, if *loopback { ",loop" } else { "" }),
        Op::CloneH(h) => format!("Clone({})", h),
        Op::CloneFrom { dst, src } => format!("CloneFrom(root {} <- handle {})", dst, src),
        Op::DropRoot(r) => format!("Drop({})", r),
        Op::DropClosureRoots(h) => format!("DropClosureRoots({})", h),
        Op::Store { owner, target, adopt } => format!("Store({}<-{},a{})", owner, target, adopt),
        Op::AdoptSlot { pick, same_instance } => format!("AdoptSlot({}{})", pick, if *same_instance { ",same" } else { "" }),
        Op::LoopbackAdopt(h) => format!("LoopbackAdopt({})", h),
        Op::Unadopt { a, b } => format!("Unadopt({},{})", a, b),
        Op::Remove { owner, slot, unadopt, keep } => format!(
            "Remove({}[{}]{}{})",
            owner,
            slot,
            if *unadopt { ",un" } else { "" },
            if *keep { ",keep" } else { "" }
        ),
        Op::StripHandlesTo { target, unadopt, keep } => format!("StripHandlesTo({}{}{})", target, if *unadopt { ",un" } else { "" }, if *keep { ",keep" } else { "" }),
        Op::ClearSlots { owner, leave, unadopt, keep } => format!("ClearSlots({},leave{}{}{})", owner, leave, if *unadopt { ",un" } else { "" }, if *keep { ",keep" } else { "" }),
        Op::UniqueRoot(h) => format!("UniqueRoot({})", h),
        Op::Downgrade(h) => format!("Downgrade({})", h),
        Op::CloneWeak(w) => format!("CloneW({})", w),
        Op::DropWeak(w) => format!("DropW({})", w),
        Op::Upgrade(w) => format!("Upgrade({})", w),
        Op::StoreWeak { owner, w } => format!("StoreW({}<-{})", owner, w),
        Op::RemoveWeak { owner, slot } => format!("RemoveW({}[{}])", owner, slot),
        Op::WeakNew => "WeakNew".into(),
        Op::WeakCloneFrom { dst, src } => format!("WeakCloneFrom(weak {} <- weak {})", dst, src),
        Op::TryUnwrap(r) => format!("TryUnwrap({})", r),
        Op::MakeMut(r) => format!("MakeMut({})", r),
        Op::GetMut(r) => format!("GetMut({})", r),
        Op::IntoRaw(r) => format!("IntoRaw({})", r),
        Op::FromRaw(p) => format!("FromRaw({})", p),
        Op::IncStrong(p) => format!("IncStrong({})", p),
        Op::DecStrong(p) => format!("DecStrong({})", p),
        Op::DropLoose(v) => format!("DropLoose({})", v),
        Op::WeakIntoRaw(w) => format!("WeakIntoRaw({})", w),
        Op::WeakFromRaw(k) => format!("WeakFromRaw({})", k),
        Op::Repeat { op, k } => format!("{}x[{}]", k, op_compact(op)),
        Op::Probe => "Probe".into(),
    }
}

pub fn dact_compact(d: &DAct) -> String {
    match d {
        DAct::Do(op) => format!("do:{}", op_compact(op)),
        DAct::UpgradeOwnWeak(k) => format!("upOwnW({})", k),
        DAct::CloneOwnSlot(k) => format!("cloneOwn({})", k),
        DAct::DropOwnSlot(k) => format!("dropOwn({})", k),
        DAct::DowngradeOwnSlot(k) => format!("downgradeOwn({})", k),
        DAct::Observe => "observe".into(),
        DAct::Panic => "PANIC".into(),
    }
}

/// Monotone selector mapping.
#[inline]
pub fn pick(sel: u16, len: usize) -> Option<usize> {
    if len == 0 {
        None
    } else {
        Some(((sel as usize) * len) >> 16)
    }
}

/// Smallest selector that picks index `i` out of `len`.
pub fn sel_for(i: usize, len: usize) -> u16 {
    debug_assert!(i < len);
    let s = ((i << 16) + len - 1) / len;
    s.min(0xffff) as u16
}
