//! C07: without adoptions, cactusref::{Rc, Weak} behave exactly like
//! std::rc::{Rc, Weak}.  Differential check: the same generated straight-line
//! program is interpreted over both families; the observation traces and the
//! ordered destructor logs must be equal.

use crate::exec::{self, violate, CaseResult, View};
use crate::props::Tier;
use crate::runner::Kind;
use crate::script::pick;
use proptest::collection::vec;
use proptest::prelude::*;
use serde::{Deserialize, Serialize};
use std::cell::{Cell, RefCell};
use std::collections::hash_map::DefaultHasher;
use std::fmt;
use std::hash::{Hash, Hasher};

thread_local! {
    static LOG: RefCell<Vec<String>> = const { RefCell::new(Vec::new()) };
    static NEXT_ID: Cell<u32> = const { Cell::new(0) };
    static FLAGS: Cell<u64> = const { Cell::new(0) };
    static CLONE_PANICS: Cell<bool> = const { Cell::new(false) };
    // calls of the payload's own Ord::cmp (+1) and PartialOrd::partial_cmp (+100):
    // how often a handle comparison forwards to the value is part of what a
    // program observes (std forwards unconditionally for the ordering traits)
    static ORD_CALLS: Cell<u32> = const { Cell::new(0) };
    // calls of the payload's eq (+1, compared for two different allocations only:
    // std may skip it for one allocation when T: Eq), hash (+100), Display::fmt
    // (+10_000) and Debug::fmt (+1_000_000)
    static TRAIT_CALLS: Cell<u32> = const { Cell::new(0) };
}

fn trait_calls<R>(f: impl FnOnce() -> R) -> (R, u32) {
    let before = TRAIT_CALLS.with(|c| c.get());
    let r = f();
    (r, TRAIT_CALLS.with(|c| c.get()).wrapping_sub(before))
}

fn ord_calls<R>(f: impl FnOnce() -> R) -> (R, u32, u32) {
    let before = ORD_CALLS.with(|c| c.get());
    let (r, other) = trait_calls(f);
    (r, ORD_CALLS.with(|c| c.get()).wrapping_sub(before), other)
}

fn log(s: String) {
    LOG.with(|l| l.borrow_mut().push(s));
}

fn next_id() -> u32 {
    NEXT_ID.with(|n| {
        let v = n.get();
        n.set(v + 1);
        v
    })
}

fn flag(b: u32) {
    FLAGS.with(|f| f.set(f.get() | (1 << b)));
}

pub const F_NESTED_DESTROYED: u32 = 0;
pub const F_WEAK_AFTER_DEATH: u32 = 1;
pub const F_UNWRAP_OK: u32 = 2;
pub const F_MAKEMUT_CLONE: u32 = 3;
pub const F_MAKEMUT_MOVE: u32 = 4;
pub const F_RAW_ROUNDTRIP: u32 = 5;
pub const F_WEAK_RAW: u32 = 6;
pub const F_UNWRAP_ERR: u32 = 7;
pub const F_GETMUT_SOME: u32 = 8;
pub const F_CYCLE_STORED: u32 = 9;
pub const F_WEAK_IN_VALUE_DROPPED: u32 = 10;
pub const F_INC_DEC: u32 = 11;
pub const F_OVER_ALIGNED: u32 = 12;
pub const F_CLONE_PANIC: u32 = 13;
pub const F_MISC_TYPES: u32 = 14;
pub const F_CMP_ALIASED: u32 = 15;
pub const NAMES: [&str; 16] = [
    "value_with_nested_handles_destroyed",
    "weak_observed_after_death",
    "try_unwrap_ok",
    "make_mut_cloned",
    "make_mut_moved_with_weak",
    "raw_round_trip",
    "weak_raw_round_trip",
    "try_unwrap_err",
    "get_mut_some",
    "handle_stored_in_value",
    "weak_inside_destroyed_value",
    "inc_dec_strong_count",
    "over_aligned_payload",
    "make_mut_with_panicking_clone",
    "other_payload_types",
    "ordering_of_two_handles_to_one_allocation",
];

/// Alignment fillers of the over-aligned payload variants.
#[repr(align(16))]
#[derive(Default)]
pub struct Align16;
#[repr(align(32))]
#[derive(Default)]
pub struct Align32;
#[repr(align(64))]
#[derive(Default)]
pub struct Align64;
#[repr(align(128))]
#[derive(Default)]
pub struct Align128;

pub trait Fam: Sized + 'static {
    type R;
    type W;
    /// `()` or `Align64`: the payload's alignment decides where `value` sits
    /// in the allocation (raw-pointer round trips depend on it)
    type Al: Default;
    fn new(v: Val<Self>) -> Self::R;
    fn from_t(v: Val<Self>) -> Self::R;
    fn from_box(v: Box<Val<Self>>) -> Self::R;
    fn new_uninit_init(v: Val<Self>) -> Self::R;
    fn pinned(v: Val<Self>) -> Self::R;
    fn default_r() -> Self::R;
    fn clone_r(r: &Self::R) -> Self::R;
    fn clone_from_r(dst: &mut Self::R, src: &Self::R);
    fn w_clone_from(dst: &mut Self::W, src: &Self::W);
    fn get(r: &Self::R) -> &Val<Self>;
    fn borrow_id(r: &Self::R) -> (u32, u32);
    fn downgrade(r: &Self::R) -> Self::W;
    fn strong_count(r: &Self::R) -> usize;
    fn weak_count(r: &Self::R) -> usize;
    fn try_unwrap(r: Self::R) -> Result<Val<Self>, Self::R>;
    fn get_mut_id(r: &mut Self::R) -> Option<u32>;
    fn make_mut_id(r: &mut Self::R) -> u32;
    fn into_raw(r: Self::R) -> *const Val<Self>;
    unsafe fn from_raw(p: *const Val<Self>) -> Self::R;
    unsafe fn inc(p: *const Val<Self>);
    unsafe fn dec(p: *const Val<Self>);
    fn ptr_eq(a: &Self::R, b: &Self::R) -> bool;
    fn as_ptr(r: &Self::R) -> *const Val<Self>;
    fn cmp_all(a: &Self::R, b: &Self::R) -> String;
    fn hash_r(r: &Self::R) -> u64;
    fn fmt_r(r: &Self::R) -> String;
    fn weak_new() -> Self::W;
    fn weak_default() -> Self::W;
    fn w_clone(w: &Self::W) -> Self::W;
    fn w_upgrade(w: &Self::W) -> Option<Self::R>;
    fn w_strong(w: &Self::W) -> usize;
    fn w_weak(w: &Self::W) -> usize;
    fn w_into_raw(w: Self::W) -> *const Val<Self>;
    unsafe fn w_from_raw(p: *const Val<Self>) -> Self::W;
    fn w_ptr_eq(a: &Self::W, b: &Self::W) -> bool;
    fn w_as_ptr(w: &Self::W) -> *const Val<Self>;
    fn w_fmt(w: &Self::W) -> String;
    /// the shared API on other payload types (non-reflexive equality, zero
    /// size, sizes that are not a multiple of the alignment of the header)
    fn misc(ty: u8, a: u8, b: u8, same: bool) -> String;
}

pub struct Val<F: Fam> {
    pub al: F::Al,
    pub id: u32,
    pub strong: RefCell<Vec<F::R>>,
    pub weak: RefCell<Vec<F::W>>,
}

impl<F: Fam> Val<F> {
    fn fresh() -> Self {
        Val { al: F::Al::default(), id: next_id(), strong: RefCell::new(vec![]), weak: RefCell::new(vec![]) }
    }
}

impl<F: Fam> Default for Val<F> {
    fn default() -> Self {
        Val::fresh()
    }
}

impl<F: Fam> Drop for Val<F> {
    fn drop(&mut self) {
        log(format!("drop {} ({} strong, {} weak inside)", self.id, self.strong.borrow().len(), self.weak.borrow().len()));
        if !self.strong.borrow().is_empty() {
            flag(F_NESTED_DESTROYED);
        }
        if !self.weak.borrow().is_empty() {
            flag(F_WEAK_IN_VALUE_DROPPED);
        }
    }
}

impl<F: Fam> Clone for Val<F> {
    fn clone(&self) -> Self {
        if CLONE_PANICS.with(|c| c.get()) {
            log(format!("clone of {} panics", self.id));
            std::panic::panic_any(crate::interp::Injected);
        }
        let v = Val::fresh();
        log(format!("clone {} -> {}", self.id, v.id));
        for h in self.strong.borrow().iter() {
            v.strong.borrow_mut().push(F::clone_r(h));
        }
        for w in self.weak.borrow().iter() {
            v.weak.borrow_mut().push(F::w_clone(w));
        }
        v
    }
}

impl<F: Fam> PartialEq for Val<F> {
    fn eq(&self, o: &Self) -> bool {
        TRAIT_CALLS.with(|c| c.set(c.get().wrapping_add(1)));
        self.id / 2 == o.id / 2
    }
}
impl<F: Fam> Eq for Val<F> {}
impl<F: Fam> PartialOrd for Val<F> {
    fn partial_cmp(&self, o: &Self) -> Option<std::cmp::Ordering> {
        ORD_CALLS.with(|c| c.set(c.get().wrapping_add(100)));
        Some(self.cmp(o))
    }
}
impl<F: Fam> Ord for Val<F> {
    fn cmp(&self, o: &Self) -> std::cmp::Ordering {
        ORD_CALLS.with(|c| c.set(c.get().wrapping_add(1)));
        (self.id / 2).cmp(&(o.id / 2))
    }
}
impl<F: Fam> Hash for Val<F> {
    fn hash<H: Hasher>(&self, h: &mut H) {
        TRAIT_CALLS.with(|c| c.set(c.get().wrapping_add(100)));
        (self.id / 2).hash(h)
    }
}
impl<F: Fam> fmt::Display for Val<F> {
    fn fmt(&self, f: &mut fmt::Formatter<'_>) -> fmt::Result {
        TRAIT_CALLS.with(|c| c.set(c.get().wrapping_add(10_000)));
        write!(f, "V{}", self.id)
    }
}
impl<F: Fam> fmt::Debug for Val<F> {
    fn fmt(&self, f: &mut fmt::Formatter<'_>) -> fmt::Result {
        TRAIT_CALLS.with(|c| c.set(c.get().wrapping_add(1_000_000)));
        write!(f, "Val{{id:{}}}", self.id)
    }
}

macro_rules! impl_fam {
    ($name:ident, $rc:ident, $weak:ident, $al:ty) => {
        pub struct $name;
        impl Fam for $name {
            type R = $rc<Val<$name>>;
            type W = $weak<Val<$name>>;
            type Al = $al;
            fn new(v: Val<Self>) -> Self::R {
                $rc::new(v)
            }
            fn from_t(v: Val<Self>) -> Self::R {
                $rc::from(v)
            }
            fn from_box(v: Box<Val<Self>>) -> Self::R {
                $rc::from(v)
            }
            fn new_uninit_init(v: Val<Self>) -> Self::R {
                let mut u = $rc::<Val<Self>>::new_uninit();
                unsafe {
                    $rc::get_mut(&mut u).unwrap().as_mut_ptr().write(v);
                    u.assume_init()
                }
            }
            fn pinned(v: Val<Self>) -> Self::R {
                std::pin::Pin::into_inner($rc::pin(v))
            }
            fn default_r() -> Self::R {
                <$rc<Val<Self>> as Default>::default()
            }
            fn clone_r(r: &Self::R) -> Self::R {
                $rc::clone(r)
            }
            fn clone_from_r(dst: &mut Self::R, src: &Self::R) {
                dst.clone_from(src)
            }
            fn w_clone_from(dst: &mut Self::W, src: &Self::W) {
                dst.clone_from(src)
            }
            fn get(r: &Self::R) -> &Val<Self> {
                r
            }
            fn borrow_id(r: &Self::R) -> (u32, u32) {
                let a: &Val<Self> = std::borrow::Borrow::borrow(r);
                let b: &Val<Self> = r.as_ref();
                (a.id, b.id)
            }
            fn downgrade(r: &Self::R) -> Self::W {
                $rc::downgrade(r)
            }
            fn strong_count(r: &Self::R) -> usize {
                $rc::strong_count(r)
            }
            fn weak_count(r: &Self::R) -> usize {
                $rc::weak_count(r)
            }
            fn try_unwrap(r: Self::R) -> Result<Val<Self>, Self::R> {
                $rc::try_unwrap(r)
            }
            fn get_mut_id(r: &mut Self::R) -> Option<u32> {
                $rc::get_mut(r).map(|v| v.id)
            }
            fn make_mut_id(r: &mut Self::R) -> u32 {
                $rc::make_mut(r).id
            }
            fn into_raw(r: Self::R) -> *const Val<Self> {
                $rc::into_raw(r)
            }
            unsafe fn from_raw(p: *const Val<Self>) -> Self::R {
                $rc::from_raw(p)
            }
            unsafe fn inc(p: *const Val<Self>) {
                $rc::increment_strong_count(p)
            }
            unsafe fn dec(p: *const Val<Self>) {
                $rc::decrement_strong_count(p)
            }
            fn ptr_eq(a: &Self::R, b: &Self::R) -> bool {
                $rc::ptr_eq(a, b)
            }
            fn as_ptr(r: &Self::R) -> *const Val<Self> {
                $rc::as_ptr(r)
            }
            #[allow(clippy::all)]
            fn cmp_all(a: &Self::R, b: &Self::R) -> String {
                if $rc::ptr_eq(a, b) {
                    flag(F_CMP_ALIASED);
                }
                let eq_calls = if $rc::ptr_eq(a, b) { (0, 0) } else { (trait_calls(|| a == b).1, trait_calls(|| a != b).1) };
                format!(
                    "eqcalls={:?} eq={} ne={} lt={:?} le={:?} gt={:?} ge={:?} cmp={:?} pcmp={:?} max_is_b={:?} min_is_a={:?}",
                    eq_calls,
                    a == b,
                    a != b,
                    ord_calls(|| a < b),
                    ord_calls(|| a <= b),
                    ord_calls(|| a > b),
                    ord_calls(|| a >= b),
                    ord_calls(|| a.cmp(b)),
                    ord_calls(|| a.partial_cmp(b)),
                    ord_calls(|| std::ptr::eq(a.max(b), b)),
                    ord_calls(|| std::ptr::eq(a.min(b), a))
                )
            }
            fn hash_r(r: &Self::R) -> u64 {
                let mut h = DefaultHasher::new();
                r.hash(&mut h);
                h.finish()
            }
            fn fmt_r(r: &Self::R) -> String {
                let p = format!("{:p}", *r) == format!("{:p}", $rc::as_ptr(r));
                format!("{} {:?} ptrfmt_matches_as_ptr={}", r, r, p)
            }
            fn weak_new() -> Self::W {
                $weak::new()
            }
            fn weak_default() -> Self::W {
                <$weak<Val<Self>> as Default>::default()
            }
            fn w_clone(w: &Self::W) -> Self::W {
                $weak::clone(w)
            }
            fn w_upgrade(w: &Self::W) -> Option<Self::R> {
                w.upgrade()
            }
            fn w_strong(w: &Self::W) -> usize {
                w.strong_count()
            }
            fn w_weak(w: &Self::W) -> usize {
                w.weak_count()
            }
            fn w_into_raw(w: Self::W) -> *const Val<Self> {
                w.into_raw()
            }
            unsafe fn w_from_raw(p: *const Val<Self>) -> Self::W {
                $weak::from_raw(p)
            }
            fn w_ptr_eq(a: &Self::W, b: &Self::W) -> bool {
                a.ptr_eq(b)
            }
            fn w_as_ptr(w: &Self::W) -> *const Val<Self> {
                w.as_ptr()
            }
            fn w_fmt(w: &Self::W) -> String {
                format!("{:?}|{:12?}|{:<9.3?}|{:#?}|{:+?}", w, w, w, w, w)
            }
            fn misc(ty: u8, a: u8, b: u8, same: bool) -> String {
                #[allow(clippy::all)]
                fn one<T: PartialEq + PartialOrd + std::fmt::Debug + Clone>(x: T, y: T, z: T, same: bool) -> String {
                    let a = $rc::new(x);
                    let b = if same { $rc::clone(&a) } else { $rc::new(y) };
                    let mut s = format!(
                        "eq={} ne={} lt={} le={} gt={} ge={} pcmp={:?} ptr_eq={} dbg={:?}",
                        a == b,
                        a != b,
                        a < b,
                        a <= b,
                        a > b,
                        a >= b,
                        a.partial_cmp(&b),
                        $rc::ptr_eq(&a, &b),
                        a
                    );
                    // the caller's format spec reaches the value's impl
                    s += &format!(" dbgspec={:#?}|{:14?}|{:<14?}|{:>+14.2?}|", a, a, a, a);
                    s += &format!(" ptrspec={}|{}", format!("{:p}", a) == format!("{:p}", $rc::as_ptr(&a)), format!("{:24p}", a) == format!("{:24p}", $rc::as_ptr(&a)));
                    let w = $rc::downgrade(&a);
                    s += &format!(" sc={} wc={}", $rc::strong_count(&a), $rc::weak_count(&a));
                    let p = $rc::into_raw(a);
                    let a = unsafe { $rc::from_raw(p) };
                    s += &format!(" raw_rt={}", $rc::as_ptr(&a) == p && std::ptr::eq(&*a, p));
                    let wp = w.into_raw();
                    let w = unsafe { $weak::from_raw(wp) };
                    s += &format!(" wraw={} up={}", wp == p, w.upgrade().is_some());
                    let w2 = w.clone();
                    s += &format!(" w_ptr_eq={} wsc={} wwc={}", w.ptr_eq(&w2), w.strong_count(), w.weak_count());
                    drop(w2);
                    let mut a = a;
                    s += &format!(" get_mut={}", $rc::get_mut(&mut a).is_some());
                    let _ = $rc::make_mut(&mut a);
                    s += &format!(
                        " after_make_mut sc={} wc={} up={} moved={} val={:?}",
                        $rc::strong_count(&a),
                        $rc::weak_count(&a),
                        w.upgrade().is_some(),
                        $rc::as_ptr(&a) != p,
                        a
                    );
                    drop(b);
                    let w3 = $rc::downgrade(&a);
                    s += &format!(" unwrap={:?}", $rc::try_unwrap(a).ok());
                    s += &format!(" w sc={} wc={} w3 up={} sc={}", w.strong_count(), w.weak_count(), w3.upgrade().is_some(), w3.strong_count());
                    let fb: $rc<T> = $rc::from(Box::new(z.clone()));
                    let ft: $rc<T> = $rc::from(z);
                    s += &format!(" from_t eq={} dbg={:?}", fb == ft, ft);
                    s += &format!(" from_box sc={}", $rc::strong_count(&fb));
                    s
                }
                fn run<T: PartialEq + PartialOrd + std::fmt::Debug + Clone>(x: T, y: T, same: bool) -> String {
                    let z = y.clone();
                    one(x, y, z, same)
                }
                /// a zero-sized type whose Hash impl writes something
                #[derive(PartialEq, Eq, PartialOrd, Debug, Clone)]
                struct Marker;
                impl Hash for Marker {
                    fn hash<H: Hasher>(&self, h: &mut H) {
                        h.write_u32(0xC0FFEE);
                    }
                }
                fn hashed<T: Hash + Eq>(x: T) -> String {
                    let mut h0 = DefaultHasher::new();
                    x.hash(&mut h0);
                    let a = $rc::new(x);
                    let mut h1 = DefaultHasher::new();
                    a.hash(&mut h1);
                    let mut set = std::collections::HashSet::new();
                    set.insert($rc::clone(&a));
                    format!(" hash_like_value={} {:x} set_lookup_by_value={}", h0.finish() == h1.finish(), h1.finish(), set.contains(&*a))
                }
                fn disp<T: std::fmt::Display>(x: T, w: usize, p: usize) -> String {
                    let a = $rc::new(x);
                    format!(" display={}|{:>9}|{:*<9}|{:^9}|{:+}|{:09.3}|{:.2}|{:w$.p$}|", a, a, a, a, a, a, a, a, w = w, p = p)
                }
                const F: [f64; 6] = [f64::NAN, 0.0, -0.0, 1.5, f64::INFINITY, -2.0];
                match ty % 7 {
                    0 => run(F[a as usize % 6], F[b as usize % 6], same) + &disp(F[a as usize % 6] * 1.23456, 5 + b as usize % 8, a as usize % 5),
                    1 => run(F[a as usize % 6] as f32, F[b as usize % 6] as f32, same) + &disp(F[b as usize % 6] as f32 * 0.5, 4 + a as usize % 9, b as usize % 4),
                    2 => run(a, b, same) + &disp(a as i16 - 100, 3 + b as usize % 6, 0) + &disp(format!("s{}", b), 2 + a as usize % 7, 1 + b as usize % 3) + &hashed(a) + &hashed(format!("k{}", b)),
                    3 => run((), (), same) + &hashed(()) + &hashed([0u8; 0]) + &hashed(Marker) + &hashed((Marker, [0u16; 0])),
                    4 => run([a, b, 3], [b, a, 3], same) + &hashed([a, b, 3]) + &run(Marker, Marker, same),
                    5 => run(Some(F[a as usize % 6]), if b % 5 == 0 { None } else { Some(F[b as usize % 6]) }, same),
                    _ => run((a, F[b as usize % 6] as f32), (b, F[a as usize % 6] as f32), same),
                }
            }
        }
    };
}

mod cx {
    use super::*;
    use cactusref::{Rc, Weak};
    impl_fam!(Cx, Rc, Weak, ());
    impl_fam!(CxA, Rc, Weak, Align64);
    impl_fam!(CxA16, Rc, Weak, Align16);
    impl_fam!(CxA32, Rc, Weak, Align32);
    impl_fam!(CxA128, Rc, Weak, Align128);
}
mod sd {
    use super::*;
    use std::rc::{Rc, Weak};
    impl_fam!(Sd, Rc, Weak, ());
    impl_fam!(SdA, Rc, Weak, Align64);
    impl_fam!(SdA16, Rc, Weak, Align16);
    impl_fam!(SdA32, Rc, Weak, Align32);
    impl_fam!(SdA128, Rc, Weak, Align128);
}
pub use cx::{Cx, CxA, CxA128, CxA16, CxA32};
pub use sd::{Sd, SdA, SdA128, SdA16, SdA32};

#[derive(Clone, Debug, PartialEq, Eq, Serialize, Deserialize)]
pub enum POp {
    New(u8),
    Clone(u16),
    Drop(u16),
    Downgrade(u16),
    WClone(u16),
    WDrop(u16),
    Upgrade(u16),
    WeakNew(bool),
    Counts(u16),
    WCounts(u16),
    TryUnwrap(u16, bool),
    GetMut(u16),
    MakeMut(u16),
    /// make_mut while the payload's Clone panics (caught by the program)
    MakeMutPanic(u16),
    IntoRaw(u16),
    FromRaw(u16),
    Inc(u16),
    Dec(u16),
    WIntoRaw(u16),
    WFromRaw(u16),
    PtrEq(u16, u16),
    WPtrEq(u16, u16),
    Cmp(u16, u16),
    HashFmt(u16),
    WFmt(u16),
    StoreStrong(u16, u16),
    StoreWeak(u16, u16),
    TakeStrong(u16, u16),
    TakeWeak(u16, u16),
    DropLoose(u16),
    AsPtrRel(u16, u16),
    Borrow(u16),
    /// `roots[a].clone_from(&roots[b])` / the same on two Weak handles
    CloneFrom(u16, u16),
    WCloneFrom(u16, u16),
    /// the shared API on a small payload type other than `Val` (f64 with NaN,
    /// f32, u8, (), [u8; 3], Option<f64>, (u8, f32))
    Misc { ty: u8, a: u8, b: u8, same: bool },
}

#[derive(Clone, Debug, PartialEq, Eq, Serialize, Deserialize)]
pub struct Prog {
    pub ops: Vec<POp>,
    /// payload type aligned to 64 bytes (offset of the value inside the
    /// allocation differs from the header size)
    #[serde(default)]
    pub over_aligned: bool,
    /// payload alignment: 0 = 8 bytes (or 64 if `over_aligned`), 1 = 16, 2 = 32, 3 = 64, 4 = 128
    #[serde(default)]
    pub align: u8,
}

struct State<F: Fam> {
    roots: Vec<F::R>,
    weaks: Vec<F::W>,
    raws: Vec<*const Val<F>>,
    wraws: Vec<*const Val<F>>,
    loose: Vec<Val<F>>,
    obs: Vec<String>,
}

fn run_prog<F: Fam>(p: &Prog) -> (Vec<String>, Vec<String>) {
    LOG.with(|l| l.borrow_mut().clear());
    NEXT_ID.with(|n| n.set(0));
    let mut s: State<F> = State { roots: vec![], weaks: vec![], raws: vec![], wraws: vec![], loose: vec![], obs: vec![] };
    for (i, op) in p.ops.iter().enumerate() {
        let before = LOG.with(|l| l.borrow().len());
        step::<F>(&mut s, op, i);
        let after = LOG.with(|l| l.borrow().len());
        if after != before {
            // where in the program each destruction happened is part of the observation
            s.obs.push(format!("{}: log+{}", i, after - before));
        }
    }
    // fixed-order teardown
    let State { roots, weaks, raws, wraws, loose, mut obs } = s;
    drop(loose);
    for r in roots {
        drop(r);
    }
    for p in raws {
        drop(unsafe { F::from_raw(p) });
    }
    for w in weaks {
        obs.push(format!("end: w {}/{}", F::w_strong(&w), F::w_weak(&w)));
        drop(w);
    }
    for p in wraws {
        drop(unsafe { F::w_from_raw(p) });
    }
    let log = LOG.with(|l| std::mem::take(&mut *l.borrow_mut()));
    (obs, log)
}

fn step<F: Fam>(s: &mut State<F>, op: &POp, i: usize) {
    macro_rules! root {
        ($sel:expr) => {
            match pick($sel, s.roots.len()) {
                Some(k) => k,
                None => return,
            }
        };
    }
    macro_rules! weak {
        ($sel:expr) => {
            match pick($sel, s.weaks.len()) {
                Some(k) => k,
                None => return,
            }
        };
    }
    match *op {
        POp::New(kind) => {
            if s.roots.len() >= 24 {
                return;
            }
            let r = match kind % 6 {
                0 => F::new(Val::fresh()),
                1 => F::from_t(Val::fresh()),
                2 => F::from_box(Box::new(Val::fresh())),
                3 => F::new_uninit_init(Val::fresh()),
                4 => F::pinned(Val::fresh()),
                _ => F::default_r(),
            };
            s.obs.push(format!("{}: new id={} counts={}/{}", i, F::get(&r).id, F::strong_count(&r), F::weak_count(&r)));
            s.roots.push(r);
        }
        POp::Clone(h) => {
            let k = root!(h);
            let c = F::clone_r(&s.roots[k]);
            s.obs.push(format!("{}: clone id={} counts={}/{}", i, F::get(&c).id, F::strong_count(&c), F::weak_count(&c)));
            s.roots.push(c);
        }
        POp::Drop(h) => {
            let k = root!(h);
            let r = s.roots.remove(k);
            drop(r);
        }
        POp::Downgrade(h) => {
            let k = root!(h);
            let w = F::downgrade(&s.roots[k]);
            s.obs.push(format!("{}: downgrade counts={}/{} w={}/{}", i, F::strong_count(&s.roots[k]), F::weak_count(&s.roots[k]), F::w_strong(&w), F::w_weak(&w)));
            s.weaks.push(w);
        }
        POp::WClone(w) => {
            let k = weak!(w);
            let c = F::w_clone(&s.weaks[k]);
            s.obs.push(format!("{}: wclone w={}/{}", i, F::w_strong(&c), F::w_weak(&c)));
            s.weaks.push(c);
        }
        POp::WDrop(w) => {
            let k = weak!(w);
            let x = s.weaks.remove(k);
            drop(x);
        }
        POp::Upgrade(w) => {
            let k = weak!(w);
            match F::w_upgrade(&s.weaks[k]) {
                Some(r) => {
                    s.obs.push(format!("{}: upgrade Some id={} counts={}/{}", i, F::get(&r).id, F::strong_count(&r), F::weak_count(&r)));
                    s.roots.push(r);
                }
                None => {
                    s.obs.push(format!("{}: upgrade None w={}/{}", i, F::w_strong(&s.weaks[k]), F::w_weak(&s.weaks[k])));
                    if F::w_as_ptr(&s.weaks[k]) as usize != usize::MAX {
                        flag(F_WEAK_AFTER_DEATH);
                    }
                }
            }
        }
        POp::WeakNew(d) => {
            let w = if d { F::weak_default() } else { F::weak_new() };
            s.obs.push(format!("{}: weaknew w={}/{} up={}", i, F::w_strong(&w), F::w_weak(&w), F::w_upgrade(&w).is_some()));
            s.weaks.push(w);
        }
        POp::Counts(h) => {
            let k = root!(h);
            let r = &s.roots[k];
            let v = F::get(r);
            s.obs.push(format!("{}: counts id={} {}/{} inside={}s/{}w", i, v.id, F::strong_count(r), F::weak_count(r), v.strong.borrow().len(), v.weak.borrow().len()));
        }
        POp::WCounts(w) => {
            let k = weak!(w);
            s.obs.push(format!("{}: wcounts {}/{}", i, F::w_strong(&s.weaks[k]), F::w_weak(&s.weaks[k])));
        }
        POp::TryUnwrap(h, keep) => {
            let k = root!(h);
            let r = s.roots.remove(k);
            match F::try_unwrap(r) {
                Ok(v) => {
                    flag(F_UNWRAP_OK);
                    s.obs.push(format!("{}: try_unwrap Ok id={} inside={}s/{}w", i, v.id, v.strong.borrow().len(), v.weak.borrow().len()));
                    if keep {
                        s.loose.push(v);
                    } else {
                        drop(v);
                    }
                }
                Err(r) => {
                    flag(F_UNWRAP_ERR);
                    s.obs.push(format!("{}: try_unwrap Err id={} counts={}/{}", i, F::get(&r).id, F::strong_count(&r), F::weak_count(&r)));
                    s.roots.push(r);
                }
            }
        }
        POp::GetMut(h) => {
            let k = root!(h);
            let r = F::get_mut_id(&mut s.roots[k]);
            if r.is_some() {
                flag(F_GETMUT_SOME);
            }
            s.obs.push(format!("{}: get_mut {:?}", i, r));
        }
        POp::MakeMut(h) => {
            let k = root!(h);
            let before = F::as_ptr(&s.roots[k]);
            let (sc, wc) = (F::strong_count(&s.roots[k]), F::weak_count(&s.roots[k]));
            let id = F::make_mut_id(&mut s.roots[k]);
            let moved = before != F::as_ptr(&s.roots[k]);
            if moved && sc != 1 {
                flag(F_MAKEMUT_CLONE);
            }
            if moved && sc == 1 && wc != 0 {
                flag(F_MAKEMUT_MOVE);
            }
            s.obs.push(format!("{}: make_mut id={} moved={} counts={}/{}", i, id, moved, F::strong_count(&s.roots[k]), F::weak_count(&s.roots[k])));
        }
        POp::MakeMutPanic(h) => {
            let k = root!(h);
            let before = F::as_ptr(&s.roots[k]);
            CLONE_PANICS.with(|c| c.set(true));
            let r = std::panic::catch_unwind(std::panic::AssertUnwindSafe(|| F::make_mut_id(&mut s.roots[k])));
            CLONE_PANICS.with(|c| c.set(false));
            let res = match r {
                Ok(id) => format!("Ok({})", id),
                Err(e) => {
                    std::mem::forget(e);
                    flag(F_CLONE_PANIC);
                    "panicked".to_string()
                }
            };
            s.obs.push(format!(
                "{}: make_mut with panicking Clone -> {} same_alloc={} id={} counts={}/{}",
                i,
                res,
                before == F::as_ptr(&s.roots[k]),
                F::get(&s.roots[k]).id,
                F::strong_count(&s.roots[k]),
                F::weak_count(&s.roots[k])
            ));
        }
        POp::IntoRaw(h) => {
            let k = root!(h);
            let r = s.roots.remove(k);
            let ap = F::as_ptr(&r);
            let p = F::into_raw(r);
            s.obs.push(format!("{}: into_raw same_as_as_ptr={} id={}", i, p == ap, unsafe { (*p).id }));
            s.raws.push(p);
        }
        POp::FromRaw(x) => {
            let Some(k) = pick(x, s.raws.len()) else { return };
            let p = s.raws.remove(k);
            let r = unsafe { F::from_raw(p) };
            flag(F_RAW_ROUNDTRIP);
            s.obs.push(format!("{}: from_raw id={} counts={}/{}", i, F::get(&r).id, F::strong_count(&r), F::weak_count(&r)));
            s.roots.push(r);
        }
        POp::Inc(x) => {
            let Some(k) = pick(x, s.raws.len()) else { return };
            let p = s.raws[k];
            unsafe { F::inc(p) };
            flag(F_INC_DEC);
            s.raws.push(p);
            s.obs.push(format!("{}: inc", i));
        }
        POp::Dec(x) => {
            let Some(k) = pick(x, s.raws.len()) else { return };
            let p = s.raws.remove(k);
            unsafe { F::dec(p) };
            flag(F_INC_DEC);
            s.obs.push(format!("{}: dec", i));
        }
        POp::WIntoRaw(w) => {
            let k = weak!(w);
            let x = s.weaks.remove(k);
            let ap = F::w_as_ptr(&x);
            let p = F::w_into_raw(x);
            s.obs.push(format!("{}: w_into_raw same_as_as_ptr={} dangling={}", i, p == ap, p as usize == usize::MAX));
            s.wraws.push(p);
        }
        POp::WFromRaw(x) => {
            let Some(k) = pick(x, s.wraws.len()) else { return };
            let p = s.wraws.remove(k);
            let w = unsafe { F::w_from_raw(p) };
            flag(F_WEAK_RAW);
            s.obs.push(format!("{}: w_from_raw w={}/{}", i, F::w_strong(&w), F::w_weak(&w)));
            s.weaks.push(w);
        }
        POp::PtrEq(a, b) => {
            let (ka, kb) = (root!(a), root!(b));
            s.obs.push(format!("{}: ptr_eq {} ids {} {}", i, F::ptr_eq(&s.roots[ka], &s.roots[kb]), F::get(&s.roots[ka]).id, F::get(&s.roots[kb]).id));
        }
        POp::WPtrEq(a, b) => {
            let (ka, kb) = (weak!(a), weak!(b));
            s.obs.push(format!("{}: w_ptr_eq {}", i, F::w_ptr_eq(&s.weaks[ka], &s.weaks[kb])));
        }
        POp::Cmp(a, b) => {
            let (ka, kb) = (root!(a), root!(b));
            s.obs.push(format!("{}: cmp {}", i, F::cmp_all(&s.roots[ka], &s.roots[kb])));
        }
        POp::HashFmt(h) => {
            let k = root!(h);
            let (txt, calls) = trait_calls(|| format!("hash {:x} fmt {}", F::hash_r(&s.roots[k]), F::fmt_r(&s.roots[k])));
            s.obs.push(format!("{}: {} payload-trait-calls {}", i, txt, calls));
        }
        POp::WFmt(w) => {
            let k = weak!(w);
            s.obs.push(format!("{}: wfmt {}", i, F::w_fmt(&s.weaks[k])));
        }
        POp::StoreStrong(o, t) => {
            let (ko, kt) = (root!(o), root!(t));
            if F::get(&s.roots[ko]).strong.borrow().len() >= 6 {
                return;
            }
            let c = F::clone_r(&s.roots[kt]);
            F::get(&s.roots[ko]).strong.borrow_mut().push(c);
            flag(F_CYCLE_STORED);
            s.obs.push(format!("{}: store {}<-{}", i, F::get(&s.roots[ko]).id, F::get(&s.roots[kt]).id));
        }
        POp::StoreWeak(o, w) => {
            let (ko, kw) = (root!(o), weak!(w));
            if F::get(&s.roots[ko]).weak.borrow().len() >= 6 {
                return;
            }
            let c = F::w_clone(&s.weaks[kw]);
            F::get(&s.roots[ko]).weak.borrow_mut().push(c);
        }
        POp::TakeStrong(o, x) => {
            let ko = root!(o);
            let n = F::get(&s.roots[ko]).strong.borrow().len();
            let Some(j) = pick(x, n) else { return };
            let h = F::get(&s.roots[ko]).strong.borrow_mut().remove(j);
            s.obs.push(format!("{}: take {}[{}] -> id {}", i, F::get(&s.roots[ko]).id, j, F::get(&h).id));
            s.roots.push(h);
        }
        POp::TakeWeak(o, x) => {
            let ko = root!(o);
            let n = F::get(&s.roots[ko]).weak.borrow().len();
            let Some(j) = pick(x, n) else { return };
            let w = F::get(&s.roots[ko]).weak.borrow_mut().remove(j);
            s.weaks.push(w);
        }
        POp::DropLoose(x) => {
            let Some(k) = pick(x, s.loose.len()) else { return };
            let v = s.loose.remove(k);
            drop(v);
        }
        POp::AsPtrRel(h, w) => {
            let (kh, kw) = (root!(h), weak!(w));
            s.obs.push(format!("{}: as_ptr_rel {}", i, F::as_ptr(&s.roots[kh]) == F::w_as_ptr(&s.weaks[kw])));
        }
        POp::Borrow(h) => {
            let k = root!(h);
            s.obs.push(format!("{}: borrow {:?}", i, F::borrow_id(&s.roots[k])));
        }
        POp::CloneFrom(a, b) => {
            if s.roots.len() < 2 {
                return;
            }
            let (ka, kb) = (root!(a), root!(b));
            if ka == kb {
                return;
            }
            let src: *const F::R = &s.roots[kb];
            F::clone_from_r(&mut s.roots[ka], unsafe { &*src });
            s.obs.push(format!("{}: clone_from id={} counts={}/{}", i, F::get(&s.roots[ka]).id, F::strong_count(&s.roots[ka]), F::weak_count(&s.roots[ka])));
        }
        POp::WCloneFrom(a, b) => {
            if s.weaks.len() < 2 {
                return;
            }
            let (ka, kb) = (weak!(a), weak!(b));
            if ka == kb {
                return;
            }
            let src: *const F::W = &s.weaks[kb];
            F::w_clone_from(&mut s.weaks[ka], unsafe { &*src });
            s.obs.push(format!("{}: wclone_from w={}/{} ptr_eq={}", i, F::w_strong(&s.weaks[ka]), F::w_weak(&s.weaks[ka]), F::w_ptr_eq(&s.weaks[ka], &s.weaks[kb])));
        }
        POp::Misc { ty, a, b, same } => {
            flag(F_MISC_TYPES);
            s.obs.push(format!("{}: misc {}", i, F::misc(ty, a, b, same)));
        }
    }
}

fn pop_strategy() -> BoxedStrategy<POp> {
    let s = any::<u16>;
    prop_oneof![
        10 => any::<u8>().prop_map(POp::New),
        8 => s().prop_map(POp::Clone),
        12 => s().prop_map(POp::Drop),
        9 => s().prop_map(POp::Downgrade),
        2 => s().prop_map(POp::WClone),
        4 => s().prop_map(POp::WDrop),
        9 => s().prop_map(POp::Upgrade),
        1 => any::<bool>().prop_map(POp::WeakNew),
        3 => s().prop_map(POp::Counts),
        5 => s().prop_map(POp::WCounts),
        5 => (s(), any::<bool>()).prop_map(|(a, b)| POp::TryUnwrap(a, b)),
        3 => s().prop_map(POp::GetMut),
        5 => s().prop_map(POp::MakeMut),
        2 => s().prop_map(POp::MakeMutPanic),
        3 => s().prop_map(POp::IntoRaw),
        3 => s().prop_map(POp::FromRaw),
        1 => s().prop_map(POp::Inc),
        1 => s().prop_map(POp::Dec),
        2 => s().prop_map(POp::WIntoRaw),
        2 => s().prop_map(POp::WFromRaw),
        1 => (s(), s()).prop_map(|(a, b)| POp::PtrEq(a, b)),
        1 => (s(), s()).prop_map(|(a, b)| POp::WPtrEq(a, b)),
        1 => (s(), s()).prop_map(|(a, b)| POp::Cmp(a, b)),
        1 => s().prop_map(POp::HashFmt),
        1 => s().prop_map(POp::WFmt),
        8 => (s(), s()).prop_map(|(a, b)| POp::StoreStrong(a, b)),
        4 => (s(), s()).prop_map(|(a, b)| POp::StoreWeak(a, b)),
        3 => (s(), s()).prop_map(|(a, b)| POp::TakeStrong(a, b)),
        1 => (s(), s()).prop_map(|(a, b)| POp::TakeWeak(a, b)),
        2 => s().prop_map(POp::DropLoose),
        1 => (s(), s()).prop_map(|(a, b)| POp::AsPtrRel(a, b)),
        1 => s().prop_map(POp::Borrow),
        2 => (s(), s()).prop_map(|(a, b)| POp::CloneFrom(a, b)),
        2 => (s(), s()).prop_map(|(a, b)| POp::WCloneFrom(a, b)),
        2 => (any::<u8>(), any::<u8>(), any::<u8>(), any::<bool>()).prop_map(|(ty, a, b, same)| POp::Misc { ty, a, b, same }),
    ]
    .boxed()
}

pub struct ProgKind;

impl Kind for ProgKind {
    type Case = Prog;
    fn strategy(_id: &str, tier: Tier, _variant: u64) -> BoxedStrategy<Prog> {
        let n = if tier == Tier::Thorough { 140 } else { 80 };
        (vec(pop_strategy(), 1..n), 0u8..10).prop_map(|(ops, a)| Prog { ops, over_aligned: false, align: if a < 5 { 0 } else { a - 5 } }).boxed()
    }
    fn run(_id: &str, _tier: Tier, c: &Prog) -> CaseResult {
        let views = View::Diff.bit() | View::Crash.bit() | View::Abort.bit() | View::LibPanic.bit();
        let mut r = exec::run_forked(views, crate::runner::CASE_TIMEOUT_S, || {
            crate::interp::install_panic_hook();
            FLAGS.with(|f| f.set(0));
            let al = if c.over_aligned && c.align == 0 { 3 } else { c.align };
            let a = std::panic::catch_unwind(|| match al {
                1 => run_prog::<CxA16>(c),
                2 => run_prog::<CxA32>(c),
                3 => run_prog::<CxA>(c),
                4 => run_prog::<CxA128>(c),
                _ => run_prog::<Cx>(c),
            });
            let fa = FLAGS.with(|f| f.get()) | if al != 0 { 1 << F_OVER_ALIGNED } else { 0 };
            let b = std::panic::catch_unwind(|| match al {
                1 => run_prog::<SdA16>(c),
                2 => run_prog::<SdA32>(c),
                3 => run_prog::<SdA>(c),
                4 => run_prog::<SdA128>(c),
                _ => run_prog::<Sd>(c),
            });
            let sh = exec::shared();
            sh.labels = fa;
            match (a, b) {
                (Ok((oa, la)), Ok((ob, lb))) => {
                    sh.counters[20] = c.ops.len() as u64;
                    sh.counters[21] = oa.len() as u64;
                    sh.counters[22] = la.len() as u64;
                    for k in 0..oa.len().max(ob.len()) {
                        if oa.get(k) != ob.get(k) {
                            violate(
                                View::Diff,
                                &format!("observation #{} differs: cactusref `{}` vs std `{}`", k, oa.get(k).map(|s| s.as_str()).unwrap_or("<none>"), ob.get(k).map(|s| s.as_str()).unwrap_or("<none>")),
                            );
                        }
                    }
                    for k in 0..la.len().max(lb.len()) {
                        if la.get(k) != lb.get(k) {
                            violate(
                                View::Diff,
                                &format!("destructor log entry #{} differs: cactusref `{}` vs std `{}`", k, la.get(k).map(|s| s.as_str()).unwrap_or("<none>"), lb.get(k).map(|s| s.as_str()).unwrap_or("<none>")),
                            );
                        }
                    }
                }
                (Err(_), Ok(_)) => violate(View::Diff, &format!("cactusref panicked ({}) where std did not", crate::interp::take_panic_loc())),
                (Ok(_), Err(_)) => violate(View::Internal, "std panicked where cactusref did not"),
                (Err(_), Err(_)) => violate(View::Internal, "both implementations panicked"),
            }
        });
        let l = r.labels;
        let has = |b: u32| l & (1 << b) != 0;
        r.nontrivial = has(F_NESTED_DESTROYED) && has(F_WEAK_AFTER_DEATH) && (has(F_UNWRAP_OK) || has(F_MAKEMUT_CLONE) || has(F_MAKEMUT_MOVE) || has(F_RAW_ROUNDTRIP));
        r
    }
    fn compact(c: &Prog) -> String {
        format!("{}{}", if c.over_aligned || c.align != 0 { format!("[align {}] ", [8, 16, 32, 64, 128][(if c.over_aligned && c.align == 0 { 3 } else { c.align.min(4) }) as usize]) } else { String::new() }, c.ops.iter().map(|o| format!("{:?}", o)).collect::<Vec<_>>().join(" "))
    }
    fn sample_ok(c: &Prog) -> bool {
        c.ops.len() <= 45
    }
    fn label_names() -> Vec<String> {
        let mut v: Vec<String> = NAMES.iter().map(|s| s.to_string()).collect();
        while v.len() < 64 {
            v.push(String::new());
        }
        v
    }
    fn totals(c: &[u64]) -> serde_json::Value {
        serde_json::json!({"ops": c[20], "observations_compared": c[21], "destructor_log_entries_compared": c[22]})
    }
    fn assumptions() -> Vec<String> {
        vec![
            "reference = std::rc of the installed nightly toolchain; cactusref forked std at f586d79d, behaviour drift of std would show up as a (false) difference and is handled as described in DESIGN.md section 4 C07".into(),
            "raw addresses are not compared, only pointer-equality relations".into(),
            "get_mut_unchecked, Rc<[T]>/Rc<str>/dyn (not in cactusref) are outside the shared surface".into(),
        ]
    }
}
