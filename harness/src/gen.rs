//! G1: proptest strategies producing `Script`s (DESIGN §3.1, §3.8).
//! All randomness comes from proptest so shrinking and replay work.

use crate::script::*;
use proptest::collection::vec;
use proptest::prelude::*;

#[derive(Clone, Debug)]
pub struct Weights {
    pub new: u32,
    pub clone: u32,
    pub clone_from: u32,
    pub new_uninit_adopted: u32,
    pub drop: u32,
    pub drop_closure: u32,
    pub store: u32,
    pub adopt_slot: u32,
    pub unadopt: u32,
    pub loopback: u32,
    pub remove: u32,
    pub strip: u32,
    pub unique_root: u32,
    pub clear_slots: u32,
    pub downgrade: u32,
    pub clone_weak: u32,
    pub weak_clone_from: u32,
    pub drop_weak: u32,
    pub upgrade: u32,
    pub store_weak: u32,
    pub remove_weak: u32,
    pub weak_new: u32,
    pub probe: u32,
    pub consume: u32,
    /// percentage of ops that are a repeated multiplicity-building op
    pub repeat: u32,
}

impl Weights {
    pub fn base() -> Weights {
        Weights {
            new: 8,
            clone: 8,
            clone_from: 3,
            new_uninit_adopted: 2,
            drop: 16,
            drop_closure: 3,
            store: 16,
            adopt_slot: 6,
            unadopt: 5,
            loopback: 2,
            remove: 7,
            strip: 2,
            unique_root: 1,
            clear_slots: 2,
            downgrade: 5,
            clone_weak: 2,
            weak_clone_from: 2,
            drop_weak: 3,
            upgrade: 4,
            store_weak: 3,
            remove_weak: 1,
            weak_new: 1,
            probe: 1,
            consume: 0,
            repeat: 4,
        }
    }
}

#[derive(Clone, Debug)]
pub struct GenCfg {
    pub mode: Mode,
    pub max_ops: usize,
    pub max_prefix_objs: usize,
    pub weights: Weights,
    /// probability (0..100) that a new object carries a destructor script
    pub dact_pct: u32,
    pub dact_panic: bool,
    pub dact_clone_own: bool,
    /// weight of CloneOwnSlot when `dact_clone_own` (a destructor that keeps one of
    /// its stored handles alive by cloning it out)
    pub dact_clone_own_weight: u32,
    pub dact_ops: bool,
    pub cleanup: bool,
    /// probability (0..100) that a prefix edge is recorded (Full: always)
    pub adopt_pct: u32,
    pub prefix_pct: u32,
    /// prefix edges may come with a Weak back edge stored in the target's value
    pub weak_back: bool,
}

impl GenCfg {
    pub fn new(mode: Mode, max_ops: usize) -> GenCfg {
        GenCfg {
            mode,
            max_ops,
            max_prefix_objs: 5,
            weights: Weights::base(),
            dact_pct: 0,
            dact_panic: false,
            dact_clone_own: false,
            dact_clone_own_weight: 8,
            dact_ops: true,
            cleanup: true,
            adopt_pct: 94,
            prefix_pct: 80,
            weak_back: true,
        }
    }
}

fn plain_op(wt: &Weights) -> BoxedStrategy<Op> {
    let s = any::<u16>;
    let mut v: Vec<(u32, BoxedStrategy<Op>)> = vec![
        (wt.new, Just(Op::New(vec![])).boxed()),
        (wt.clone, s().prop_map(Op::CloneH).boxed()),
        (wt.clone_from, (s(), s()).prop_map(|(dst, src)| Op::CloneFrom { dst, src }).boxed()),
        (wt.new_uninit_adopted, (s(), any::<bool>()).prop_map(|(target, loopback)| Op::NewUninitAdopted { target, loopback }).boxed()),
        (wt.drop, s().prop_map(Op::DropRoot).boxed()),
        (wt.drop_closure, s().prop_map(Op::DropClosureRoots).boxed()),
        (wt.store, (s(), s(), 0u8..7).prop_map(|(owner, target, a)| Op::Store { owner, target, adopt: [0u8, 1, 1, 1, 2, 2, 2][a as usize] }).boxed()),
        (wt.adopt_slot, (s(), any::<bool>()).prop_map(|(pick, same_instance)| Op::AdoptSlot { pick, same_instance }).boxed()),
        (wt.unadopt, (s(), s()).prop_map(|(a, b)| Op::Unadopt { a, b }).boxed()),
        (wt.loopback, s().prop_map(Op::LoopbackAdopt).boxed()),
        (
            wt.remove,
            (s(), s(), any::<bool>(), any::<bool>()).prop_map(|(owner, slot, unadopt, keep)| Op::Remove { owner, slot, unadopt, keep }).boxed(),
        ),
        (wt.strip, (s(), any::<bool>(), any::<bool>()).prop_map(|(target, unadopt, keep)| Op::StripHandlesTo { target, unadopt, keep }).boxed()),
        (wt.unique_root, s().prop_map(Op::UniqueRoot).boxed()),
        (wt.clear_slots, (s(), 0u8..3, any::<bool>(), any::<bool>()).prop_map(|(owner, leave, unadopt, keep)| Op::ClearSlots { owner, leave, unadopt, keep }).boxed()),
        (wt.downgrade, s().prop_map(Op::Downgrade).boxed()),
        (wt.clone_weak, s().prop_map(Op::CloneWeak).boxed()),
        (wt.weak_clone_from, (s(), s()).prop_map(|(dst, src)| Op::WeakCloneFrom { dst, src }).boxed()),
        (wt.drop_weak, s().prop_map(Op::DropWeak).boxed()),
        (wt.upgrade, s().prop_map(Op::Upgrade).boxed()),
        (wt.store_weak, (s(), s()).prop_map(|(owner, w)| Op::StoreWeak { owner, w }).boxed()),
        (wt.remove_weak, (s(), s()).prop_map(|(owner, slot)| Op::RemoveWeak { owner, slot }).boxed()),
        (wt.weak_new, Just(Op::WeakNew).boxed()),
        (wt.probe, Just(Op::Probe).boxed()),
    ];
    if wt.consume > 0 {
        let c = wt.consume;
        v.push((c * 3, s().prop_map(Op::TryUnwrap).boxed()));
        v.push((c * 3, s().prop_map(Op::MakeMut).boxed()));
        v.push((c, s().prop_map(Op::GetMut).boxed()));
        v.push((c * 2, s().prop_map(Op::IntoRaw).boxed()));
        v.push((c * 2, s().prop_map(Op::FromRaw).boxed()));
        v.push((c, s().prop_map(Op::IncStrong).boxed()));
        v.push((c, s().prop_map(Op::DecStrong).boxed()));
        v.push((c * 2, s().prop_map(Op::DropLoose).boxed()));
        v.push((c, s().prop_map(Op::WeakIntoRaw).boxed()));
        v.push((c, s().prop_map(Op::WeakFromRaw).boxed()));
    }
    v.retain(|(w, _)| *w > 0);
    let base = proptest::strategy::Union::new_weighted(v).boxed();
    if wt.repeat == 0 {
        return base;
    }
    // a repeated op: the inner op is one of the cheap multiplicity-building ops
    let s2 = any::<u16>;
    let inner = prop_oneof![
        4 => (s2(), s2(), 1u8..3).prop_map(|(owner, target, adopt)| Op::Store { owner, target, adopt }),
        2 => s2().prop_map(Op::CloneH),
        2 => s2().prop_map(Op::Downgrade),
        2 => (s2(), s2()).prop_map(|(owner, w)| Op::StoreWeak { owner, w }),
        1 => s2().prop_map(Op::LoopbackAdopt),
        1 => (s2(), s2()).prop_map(|(a, b)| Op::Unadopt { a, b }),
        1 => s2().prop_map(Op::CloneWeak),
    ];
    let rep = (inner, 2u8..13).prop_map(|(op, k)| Op::Repeat { op: Box::new(op), k });
    prop_oneof![
        (100 - wt.repeat.min(50)) => base,
        wt.repeat.min(50) => rep,
    ]
    .boxed()
}

fn dact(g: &GenCfg) -> BoxedStrategy<DAct> {
    let s = any::<u16>;
    let mut v: Vec<(u32, BoxedStrategy<DAct>)> = vec![
        (3, s().prop_map(DAct::UpgradeOwnWeak).boxed()),
        (2, s().prop_map(DAct::DropOwnSlot).boxed()),
        (2, s().prop_map(DAct::DowngradeOwnSlot).boxed()),
        (2, Just(DAct::Observe).boxed()),
    ];
    if g.dact_ops {
        let mut wt = g.weights.clone();
        wt.consume = 0;
        wt.probe = 0;
        wt.drop += 10;
        wt.repeat = 0;
        v.push((12, plain_op(&wt).prop_map(|op| DAct::Do(Box::new(op))).boxed()));
        v.push((5, any::<u16>().prop_map(|s| DAct::Do(Box::new(Op::DropClosureRoots(s)))).boxed()));
    }
    if g.dact_panic {
        v.push((4, Just(DAct::Panic).boxed()));
    }
    if g.dact_clone_own {
        v.push((g.dact_clone_own_weight, s().prop_map(DAct::CloneOwnSlot).boxed()));
    }
    proptest::strategy::Union::new_weighted(v).boxed()
}

fn dscript(g: &GenCfg) -> BoxedStrategy<Vec<DAct>> {
    if g.dact_pct == 0 {
        return Just(vec![]).boxed();
    }
    let pct = g.dact_pct;
    (0u32..100, vec(dact(g), 1..4)).prop_map(move |(p, d)| if p < pct { d } else { vec![] }).boxed()
}

fn op(g: &GenCfg) -> BoxedStrategy<Op> {
    if g.dact_pct == 0 {
        return plain_op(&g.weights);
    }
    let wn = g.weights.new;
    let total: u32 = {
        let w = &g.weights;
        w.new + w.clone + w.clone_from + w.new_uninit_adopted + w.drop + w.drop_closure + w.store + w.adopt_slot + w.unadopt + w.loopback + w.remove + w.strip + w.unique_root + w.clear_slots + w.downgrade + w.clone_weak + w.weak_clone_from + w.drop_weak + w.upgrade + w.store_weak + w.remove_weak + w.weak_new + w.probe + w.consume * 17
    };
    let mut wt = g.weights.clone();
    wt.new = 0;
    prop_oneof![
        wn => dscript(g).prop_map(Op::New),
        (total - wn) => plain_op(&wt),
    ]
    .boxed()
}

/// Shape families for the adoption multigraph built by the prefix.
#[derive(Clone, Debug)]
enum Shape {
    None,
    Ring { n: usize, mult: usize },
    Clique { n: usize },
    RingTail { n: usize, tail_from: usize },
    TwoRings { a: usize, b: usize },
    SelfLoop { n: usize },
    Random { n: usize, edges: Vec<(u8, u8)> },
    /// hub: object 0 adopts all others (link table with many distinct entries);
    /// `back`: every spoke adopts the hub
    Star { n: usize, back: bool },
    /// larger groups (size thresholds in the trace, long rings): ring over n
    /// objects plus chords
    Big { n: usize, chords: Vec<(u8, u8)> },
}

fn shape(max_n: usize) -> BoxedStrategy<Shape> {
    let mx = max_n.max(2);
    prop_oneof![
        3 => (2..=mx, 1usize..3).prop_map(|(n, mult)| Shape::Ring { n, mult }),
        2 => (2..=mx.min(4)).prop_map(|n| Shape::Clique { n }),
        3 => (3..=mx.max(3), 0usize..8).prop_map(|(n, t)| Shape::RingTail { n, tail_from: t }),
        2 => (2..=3usize, 2..=3usize).prop_map(|(a, b)| Shape::TwoRings { a, b }),
        2 => (1..=mx.min(3)).prop_map(|n| Shape::SelfLoop { n }),
        6 => (1..=mx, vec((any::<u8>(), any::<u8>()), 0..10)).prop_map(|(n, edges)| Shape::Random { n, edges }),
        2 => (9usize..=36, vec((any::<u8>(), any::<u8>()), 0..6)).prop_map(|(n, chords)| Shape::Big { n, chords }),
        2 => (3usize..=36, any::<bool>()).prop_map(|(n, back)| Shape::Star { n, back }),
        2 => (29usize..=40, 0u8..4).prop_map(|(n, b)| Shape::Star { n, back: b == 0 }),
    ]
    .boxed()
}

fn shape_edges(s: &Shape) -> (usize, Vec<(usize, usize)>) {
    match s {
        Shape::None => (0, vec![]),
        Shape::Ring { n, mult } => {
            let mut e = vec![];
            for i in 0..*n {
                for _ in 0..*mult {
                    e.push((i, (i + 1) % n));
                }
            }
            (*n, e)
        }
        Shape::Clique { n } => {
            let mut e = vec![];
            for i in 0..*n {
                for j in 0..*n {
                    if i != j {
                        e.push((i, j));
                    }
                }
            }
            (*n, e)
        }
        Shape::RingTail { n, tail_from } => {
            // ring over 0..n-1, object n-1 is a tail adopted by a ring member
            let r = n - 1;
            let mut e = vec![];
            for i in 0..r {
                e.push((i, (i + 1) % r));
            }
            e.push((tail_from % r, r));
            (*n, e)
        }
        Shape::TwoRings { a, b } => {
            // two rings sharing object 0
            let n = a + b - 1;
            let mut e = vec![];
            for i in 0..*a {
                e.push((i, (i + 1) % a));
            }
            let ring2: Vec<usize> = std::iter::once(0).chain(*a..n).collect();
            for i in 0..ring2.len() {
                e.push((ring2[i], ring2[(i + 1) % ring2.len()]));
            }
            (n, e)
        }
        Shape::SelfLoop { n } => {
            let mut e = vec![];
            for i in 0..*n {
                e.push((i, i));
                if i + 1 < *n {
                    e.push((i, i + 1));
                }
            }
            (*n, e)
        }
        Shape::Random { n, edges } => (*n, edges.iter().map(|&(a, b)| (a as usize % n, b as usize % n)).collect()),
        Shape::Star { n, back } => {
            let mut e: Vec<(usize, usize)> = (1..*n).map(|i| (0, i)).collect();
            if *back {
                e.extend((1..*n).map(|i| (i, 0)));
            }
            (*n, e)
        }
        Shape::Big { n, chords } => {
            let mut e: Vec<(usize, usize)> = (0..*n).map(|i| (i, (i + 1) % n)).collect();
            e.extend(chords.iter().map(|&(a, b)| (a as usize % n, b as usize % n)));
            (*n, e)
        }
    }
}

/// Ops that build the shape: `n` News, then one Store per edge.  Handle list
/// at that point = the n roots followed by the slots stored so far, so the
/// selector for root i out of `len` handles is `sel_for(i, len)`.
fn prefix_ops(n: usize, edges: &[(usize, usize)], adopt_flags: &[u8], dscripts: Vec<Vec<DAct>>, mode: Mode, adopt_pct: u32, weak_back: bool) -> Vec<Op> {
    let mut ops = vec![];
    let mut ds = dscripts.into_iter();
    for _ in 0..n {
        ops.push(Op::New(ds.next().unwrap_or_default()));
    }
    let mut len = n;
    for (k, &(a, b)) in edges.iter().enumerate() {
        let f = adopt_flags.get(k).copied().unwrap_or(0);
        let adopt = match mode {
            Mode::NoAdopt => 0,
            Mode::Full => 1 + (f & 1),
            _ => {
                if (f as u32 * 100 / 256) < adopt_pct {
                    1 + (f & 1)
                } else {
                    0
                }
            }
        };
        ops.push(Op::Store { owner: sel_for(a, len), target: sel_for(b, len), adopt });
        len += 1;
        // optional Weak back edge: the target's value holds a Weak to the owner
        if weak_back && f & 0x30 == 0x30 {
            ops.push(Op::Downgrade(sel_for(a, len)));
            // the new Weak is the last weak root; the owner of the slot is b
            ops.push(Op::StoreWeak { owner: sel_for(b, len), w: 0xffff });
            ops.push(Op::DropWeak(0xffff));
        }
    }
    // which outside handles remain: drop some creation roots right away (most
    // of them for big shapes, so that few outside handles hold a large group)
    let big = n >= 9;
    let mut present: Vec<usize> = (0..n).collect();
    for i in 0..n {
        let f = adopt_flags.get((i * 7 + 3) % adopt_flags.len().max(1)).copied().unwrap_or(0) as usize + i * 37;
        let drop_it = if big { f % 8 != 0 } else { f % 4 == 0 };
        if drop_it && present.len() > 1 {
            let idx = present.iter().position(|&y| y == i).unwrap();
            ops.push(Op::DropRoot(sel_for(idx, present.len())));
            present.remove(idx);
        }
    }
    ops
}

pub fn script(g: GenCfg) -> BoxedStrategy<Script> {
    let mode = g.mode;
    let adopt_pct = g.adopt_pct;
    let prefix_pct = g.prefix_pct;
    let cleanup = g.cleanup;
    let max_ops = g.max_ops;
    let weak_back = g.weak_back;
    let pre = (0u32..100, shape(g.max_prefix_objs), vec(any::<u8>(), 80), vec(dscript(&g), 6)).prop_map(move |(p, sh, flags, ds)| {
        let sh = if p < prefix_pct { sh } else { Shape::None };
        let (n, e) = shape_edges(&sh);
        prefix_ops(n, &e, &flags, ds, mode, adopt_pct, weak_back)
    });
    (pre, vec(op(&g), 0..max_ops), any::<u64>(), vec(any::<u16>(), 1..6)).prop_map(move |(mut p, ops, layout_seed, cl)| {
        p.extend(ops);
        Script { mode, layout_seed, ops: p, cleanup: if cleanup { cl } else { vec![] }, arena_seed: None }
    })
    .boxed()
}
