//! Fork-per-case executor (DESIGN §3.4): every case runs in a fresh child of a
//! single-threaded worker; the child writes its verdict into a MAP_SHARED page
//! and `_exit`s; the parent classifies exit status + record.

use crate::arena;
use std::sync::atomic::{AtomicPtr, Ordering};

pub const NCOUNTERS: usize = 64;
pub const MSG_CAP: usize = 6000;
pub const SAMPLE_CAP: usize = 2000;

#[repr(u32)]
#[derive(Clone, Copy, Debug, PartialEq, Eq)]
pub enum Outcome {
    /// child died before writing anything
    None = 0,
    Pass = 1,
    Violation = 2,
    /// a view that the running property does not enable failed; the case is
    /// inconclusive for the running property
    OtherView = 3,
    KnownFinding = 4,
    Internal = 5,
    Exhausted = 6,
    /// process aborted where the property demands an abort (C16)
    ExpectedAbort = 7,
    Timeout = 8,
}

impl Outcome {
    pub fn from_u32(v: u32) -> Outcome {
        match v {
            1 => Outcome::Pass,
            2 => Outcome::Violation,
            3 => Outcome::OtherView,
            4 => Outcome::KnownFinding,
            5 => Outcome::Internal,
            6 => Outcome::Exhausted,
            7 => Outcome::ExpectedAbort,
            8 => Outcome::Timeout,
            _ => Outcome::None,
        }
    }
}

/// Oracle views (one per kind of observable misbehaviour).  Each property
/// enables the views that belong to its statement.
#[repr(u32)]
#[derive(Clone, Copy, Debug, PartialEq, Eq)]
pub enum View {
    Premature = 0,
    Mem = 1,
    Orphan = 2,
    Leak = 3,
    Weak = 4,
    Count = 5,
    Diff = 6,
    Table = 7,
    Layout = 8,
    LibPanic = 9,
    PanicSafe = 10,
    Consume = 11,
    ElidePredicate = 12,
    Cost = 13,
    Scale = 14,
    Abort = 15,
    Crash = 16,
    Internal = 31,
}

impl View {
    pub fn bit(self) -> u32 {
        1u32 << (self as u32)
    }
    pub fn name(v: u32) -> &'static str {
        match v {
            0 => "premature-destruction",
            1 => "memory(at-most-once/use-after-free/stale)",
            2 => "orphan-not-collected",
            3 => "leak-accounting",
            4 => "weak-observation",
            5 => "count/identity",
            6 => "differential",
            7 => "link-table",
            8 => "layout-dependence",
            9 => "library-panic",
            10 => "panic-safety",
            11 => "consume",
            12 => "elide-predicate",
            13 => "cost",
            14 => "scale",
            15 => "abort",
            16 => "crash",
            31 => "internal",
            _ => "?",
        }
    }
}

#[repr(u32)]
#[derive(Clone, Copy, Debug, PartialEq, Eq)]
pub enum Phase {
    Harness = 0,
    Lib = 1,
    /// harness dereferencing a handle the program still holds
    HeldDeref = 2,
    /// a call on a Weak handle
    WeakCall = 3,
}

#[repr(C)]
pub struct Shared {
    pub done: u32,
    pub outcome: u32,
    pub view: u32,
    pub op: u32,
    pub phase: u32,
    pub expect_abort: u32,
    pub after_abort: u32,
    pub sig: u32,
    pub fault_addr: u64,
    pub labels: u64,
    pub nontrivial: u32,
    pub kf_id: u32,
    pub digest: u64,
    pub enabled_views: u32,
    pub msg_len: u32,
    pub counters: [u64; NCOUNTERS],
    pub msg: [u8; MSG_CAP],
}

static SHARED: AtomicPtr<Shared> = AtomicPtr::new(std::ptr::null_mut());

/// In-process mode (E2, libFuzzer): verdicts are raised as panics instead of
/// ending the process.
pub static INPROC: std::sync::atomic::AtomicBool = std::sync::atomic::AtomicBool::new(false);

pub struct ViolationPanic {
    pub view: u32,
    pub enabled: bool,
    pub msg: String,
}

pub struct EndCasePanic;

#[inline]
pub fn inproc() -> bool {
    INPROC.load(Ordering::Relaxed)
}

#[inline]
pub fn shared() -> &'static mut Shared {
    unsafe { &mut *SHARED.load(Ordering::Relaxed) }
}

pub fn init_shared() {
    unsafe {
        let p = libc::mmap(
            std::ptr::null_mut(),
            std::mem::size_of::<Shared>(),
            libc::PROT_READ | libc::PROT_WRITE,
            libc::MAP_SHARED | libc::MAP_ANONYMOUS,
            -1,
            0,
        );
        if p == libc::MAP_FAILED {
            eprintln!("cxcheck: cannot map shared page");
            std::process::exit(2);
        }
        SHARED.store(p as *mut Shared, Ordering::Relaxed);
        // no core files
        let lim = libc::rlimit { rlim_cur: 0, rlim_max: 0 };
        libc::setrlimit(libc::RLIMIT_CORE, &lim);
    }
}

struct SinkLogger;

impl log::Log for SinkLogger {
    fn enabled(&self, _m: &log::Metadata<'_>) -> bool {
        true
    }
    fn log(&self, record: &log::Record<'_>) {
        // format the message (into nothing): the library's log arguments are
        // evaluated only when a logger at trace level is installed, and they may
        // dereference allocations
        use std::fmt::Write;
        struct Null;
        impl std::fmt::Write for Null {
            fn write_str(&mut self, _s: &str) -> std::fmt::Result {
                Ok(())
            }
        }
        let _t = arena::track_off();
        let _ = write!(Null, "{}", record.args());
        // experiment only (CX_LOG_PANIC, see DESIGN 10.15): a sink that panics
        // at the k-th record
        let k = LOG_PANIC_IN.load(Ordering::Relaxed);
        if k != u32::MAX && !std::thread::panicking() {
            if k == 0 {
                LOG_PANIC_IN.store(u32::MAX, Ordering::Relaxed);
                std::panic::panic_any(crate::interp::Injected);
            }
            LOG_PANIC_IN.store(k - 1, Ordering::Relaxed);
        }
    }
    fn flush(&self) {}
}

pub static LOG_PANIC_IN: std::sync::atomic::AtomicU32 = std::sync::atomic::AtomicU32::new(u32::MAX);
static SINK: SinkLogger = SinkLogger;

/// Child side: evaluate (and discard) the library's trace-level log output for
/// this case, or not.
pub fn set_trace_logging(on: bool) {
    let _ = log::set_logger(&SINK);
    log::set_max_level(if on { log::LevelFilter::Trace } else { log::LevelFilter::Off });
}

/// A sink logger at one of the levels (0 none, 1 / 2 Trace, 3 / 4 Debug, 5 Info,
/// 6 Warn, 7 Error): code that depends on `log_enabled!` takes each branch.
pub fn set_log_level_sel(sel: u8) {
    let _ = log::set_logger(&SINK);
    log::set_max_level(match sel & 7 {
        0 => log::LevelFilter::Off,
        1 | 2 => log::LevelFilter::Trace,
        3 | 4 => log::LevelFilter::Debug,
        5 => log::LevelFilter::Info,
        6 => log::LevelFilter::Warn,
        _ => log::LevelFilter::Error,
    });
}

pub fn set_msg(s: &str) {
    let sh = shared();
    let b = s.as_bytes();
    let n = b.len().min(MSG_CAP);
    sh.msg[..n].copy_from_slice(&b[..n]);
    sh.msg_len = n as u32;
}

pub fn get_msg() -> String {
    let sh = shared();
    String::from_utf8_lossy(&sh.msg[..(sh.msg_len as usize).min(MSG_CAP)]).into_owned()
}

/// End the case with a violation of `view` (child side).  Never returns and
/// never unwinds: the library is not given a chance to touch freed memory
/// after the first observable misbehaviour.
pub fn violate(view: View, msg: &str) -> ! {
    violate_any(view, 0, msg)
}

/// Like `violate`, but the misbehaviour also belongs to the views in `also`
/// (e.g. a fault inside a Weak call is both a Weak and a memory violation).
pub fn violate_any(view: View, also: u32, msg: &str) -> ! {
    let _t = arena::track_off();
    let sh = shared();
    let enabled = sh.enabled_views & (view.bit() | also) != 0;
    sh.view = view as u32;
    sh.outcome = if view == View::Internal {
        Outcome::Internal as u32
    } else if enabled {
        Outcome::Violation as u32
    } else {
        Outcome::OtherView as u32
    };
    let full = format!("op#{} [{}] {}", sh.op, View::name(view as u32), msg);
    set_msg(&full);
    sh.done = 1;
    if inproc() {
        std::panic::panic_any(ViolationPanic { view: view as u32, enabled, msg: full });
    }
    unsafe { libc::_exit(10) }
}

/// Views whose failure leaves the process in a state from which the case can
/// safely continue (nothing was destroyed or freed that the harness will touch).
pub fn is_soft(view: View) -> bool {
    matches!(view, View::Orphan | View::Count | View::Table | View::Leak | View::Cost | View::Weak)
}

pub const SOFT_COUNTER: usize = NCOUNTERS - 1;

/// Report a failure of `view`.  If the running property enables the view this
/// ends the case as a violation.  Otherwise, for soft views, it is only counted
/// and the case continues, so that a failure that belongs to another property
/// cannot mask the views of the property being checked.
pub fn violate_soft(view: View, msg: &str) {
    let sh = shared();
    if sh.enabled_views & view.bit() != 0 || !is_soft(view) {
        violate(view, msg);
    }
    sh.counters[SOFT_COUNTER] += 1;
}

pub fn end_known_finding(id: u32, msg: &str) -> ! {
    let _t = arena::track_off();
    let sh = shared();
    sh.outcome = Outcome::KnownFinding as u32;
    sh.kf_id = id;
    set_msg(msg);
    sh.done = 1;
    if inproc() {
        std::panic::panic_any(EndCasePanic);
    }
    unsafe { libc::_exit(0) }
}

pub fn end_pass() -> ! {
    let sh = shared();
    if arena::st().exhausted {
        sh.outcome = Outcome::Exhausted as u32;
    } else {
        sh.outcome = Outcome::Pass as u32;
    }
    sh.done = 1;
    unsafe { libc::_exit(0) }
}

/// Called by the allocator on double / invalid free.
pub fn on_alloc_error() {
    let _t = arena::track_off();
    let (kind, what) = arena::st().error.unwrap();
    let desc = match kind {
        arena::ErrKind::InvalidFree => format!("invalid free of address {:#x}", what),
        _ => format!("{:?} of {}", kind, describe_block(what)),
    };
    violate(View::Mem, &desc);
}

pub fn describe_block(idx: usize) -> String {
    let b = arena::blocks()[idx];
    let what = match b.kind {
        arena::CtxKind::New => format!("RcBox of object {}", b.a),
        arena::CtxKind::Adopt => format!("link-table storage allocated by adopt({}->{})", b.a, b.b),
        k => format!("block allocated in {:?} context", k),
    };
    format!(
        "{} (size {}, allocated at op#{}, {})",
        what,
        b.size,
        b.op,
        if b.freed { format!("freed at op#{}", b.freed_op) } else { "live".to_string() }
    )
}

extern "C" fn on_fault(sig: libc::c_int, info: *mut libc::siginfo_t, _ctx: *mut libc::c_void) {
    unsafe {
        arena::st().track = false;
        let addr = (*info).si_addr() as usize;
        let sh = shared();
        sh.sig = sig as u32;
        sh.fault_addr = addr as u64;
        let phase = sh.phase;
        let (view, what) = if let Some(idx) = arena::block_of(addr) {
            let v = match phase {
                x if x == Phase::HeldDeref as u32 => View::Premature,
                x if x == Phase::WeakCall as u32 => View::Weak,
                _ => View::Mem,
            };
            (v, format!("access to released memory: {}", describe_block(idx)))
        } else if arena::in_arena(addr) {
            (View::Mem, format!("wild access inside arena at {:#x}", addr))
        } else {
            (View::Crash, format!("signal {} at address {:#x}", sig, addr))
        };
        let phase_s = match phase {
            1 => "inside a library call",
            2 => "while the harness dereferenced a handle the program still holds",
            3 => "inside a call on a Weak handle",
            _ => "in harness code",
        };
        let also = if phase == Phase::WeakCall as u32 { View::Mem.bit() | View::Weak.bit() } else { 0 };
        violate_any(view, also, &format!("{} {}", what, phase_s));
    }
}

static mut ALT_STACK: [u8; 65536] = [0; 65536];

#[allow(static_mut_refs)]
/// A failed allocation ends the process at once (the default hook symbolises
/// and prints a backtrace first, which costs more than a whole case).
fn oom_hook(_l: std::alloc::Layout) {
    arena::st().track = false;
    std::process::abort();
}

pub fn install_fault_handlers() {
    std::alloc::set_alloc_error_hook(oom_hook);
    unsafe {
        let ss = libc::stack_t {
            ss_sp: ALT_STACK.as_mut_ptr() as *mut libc::c_void,
            ss_flags: 0,
            ss_size: 65536,
        };
        libc::sigaltstack(&ss, std::ptr::null_mut());
        let mut sa: libc::sigaction = std::mem::zeroed();
        sa.sa_sigaction = on_fault as usize;
        sa.sa_flags = libc::SA_SIGINFO | libc::SA_ONSTACK | libc::SA_NODEFER;
        libc::sigemptyset(&mut sa.sa_mask);
        libc::sigaction(libc::SIGSEGV, &sa, std::ptr::null_mut());
        libc::sigaction(libc::SIGBUS, &sa, std::ptr::null_mut());
    }
}

#[derive(Clone, Debug)]
pub struct CaseResult {
    pub outcome: Outcome,
    pub view: u32,
    pub op: u32,
    pub msg: String,
    pub labels: u64,
    pub nontrivial: bool,
    pub kf_id: u32,
    pub digest: u64,
    pub counters: [u64; NCOUNTERS],
    pub signal: i32,
}

/// Run `body` in a forked child.  `body` must end by calling one of the
/// `end_*` / `violate` functions; returning normally counts as a pass.
pub fn run_forked<F: FnOnce()>(enabled_views: u32, timeout_s: u32, body: F) -> CaseResult {
    unsafe {
        let sh = shared();
        std::ptr::write_bytes(sh as *mut Shared as *mut u8, 0, std::mem::size_of::<Shared>() - MSG_CAP);
        sh.enabled_views = enabled_views;
        let pid = libc::fork();
        if pid < 0 {
            eprintln!("cxcheck: fork failed");
            std::process::exit(2);
        }
        if pid == 0 {
            libc::alarm(timeout_s);
            install_fault_handlers();
            if std::env::var_os("CX_VERBOSE").is_none() {
                // children that abort print to stderr; keep the check's output clean
                let devnull = libc::open(b"/dev/null\0".as_ptr() as *const libc::c_char, libc::O_WRONLY);
                if devnull >= 0 {
                    libc::dup2(devnull, 2);
                }
            }
            // nothing may unwind out of the child into the caller's frames (the
            // caller is the worker's proptest loop): an escaped panic is a verdict
            match std::panic::catch_unwind(std::panic::AssertUnwindSafe(body)) {
                Ok(()) => end_pass(),
                Err(e) => crate::interp::escaped_panic(e),
            }
        }
        let mut status: libc::c_int = 0;
        loop {
            let r = libc::waitpid(pid, &mut status, 0);
            if r == pid {
                break;
            }
            if r < 0 && *libc::__errno_location() != libc::EINTR {
                break;
            }
        }
        let mut res = CaseResult {
            outcome: Outcome::from_u32(sh.outcome),
            view: sh.view,
            op: sh.op,
            msg: String::new(),
            labels: sh.labels,
            nontrivial: sh.nontrivial != 0,
            kf_id: sh.kf_id,
            digest: sh.digest,
            counters: sh.counters,
            signal: 0,
        };
        if libc::WIFSIGNALED(status) {
            let sig = libc::WTERMSIG(status);
            res.signal = sig;
            if sig == libc::SIGALRM || sig == libc::SIGKILL {
                res.outcome = Outcome::Timeout;
                res.msg = format!("op#{} watchdog: child killed by signal {}", sh.op, sig);
            } else if sh.done == 0 {
                let deliberate = sig == libc::SIGILL || sig == libc::SIGABRT || sig == libc::SIGTRAP;
                if deliberate && sh.expect_abort == 1 && sh.after_abort == 0 {
                    res.outcome = Outcome::ExpectedAbort;
                    res.msg = get_msg();
                } else {
                    let view = if deliberate { View::Abort } else { View::Crash };
                    res.view = view as u32;
                    let also = if sh.phase == Phase::WeakCall as u32 { View::Weak.bit() } else { 0 };
                    res.outcome = if enabled_views & (view.bit() | View::Mem.bit() | also) != 0 {
                        Outcome::Violation
                    } else {
                        Outcome::OtherView
                    };
                    let phase_s = match sh.phase {
                        1 => "inside a library call",
                        2 => "while dereferencing a held handle",
                        3 => "inside a Weak call",
                        _ => "in harness code",
                    };
                    res.msg = format!(
                        "op#{} [{}] process terminated by signal {} {} ({})",
                        sh.op,
                        View::name(view as u32),
                        sig,
                        phase_s,
                        get_msg()
                    );
                }
            } else {
                res.msg = get_msg();
            }
        } else {
            if sh.done == 0 {
                res.outcome = Outcome::Internal;
                res.msg = format!("child exited with status {} without a verdict", libc::WEXITSTATUS(status));
            } else {
                res.msg = get_msg();
            }
        }
        res
    }
}
