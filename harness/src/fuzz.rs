//! E2 (DESIGN §3.5): byte-level, coverage-guided fuzzing of the same
//! interpreter + model + judge, in-process, under AddressSanitizer.
//!
//! `decode` turns fuzzer bytes into a `Script` by hand with
//! `arbitrary::Unstructured`; `run_bytes` is the body of the cargo-fuzz
//! target; `judge_cmd` converts a libFuzzer artifact into a replay file and
//! re-judges it with the fork executor E1 for one property.

use crate::exec::{self, Outcome, View};
use crate::props::{self, Tier};
use crate::runner;
use crate::script::*;
use arbitrary::Unstructured;

fn dact(u: &mut Unstructured<'_>, depth: u32) -> arbitrary::Result<DAct> {
    Ok(match u.int_in_range(0u8..=6)? {
        0 => DAct::UpgradeOwnWeak(u.arbitrary()?),
        6 => DAct::DowngradeOwnSlot(u.arbitrary()?),
        1 => DAct::DropOwnSlot(u.arbitrary()?),
        2 => DAct::Observe,
        _ => DAct::Do(Box::new(op(u, false, depth + 1)?)),
    })
}

fn op(u: &mut Unstructured<'_>, consume: bool, depth: u32) -> arbitrary::Result<Op> {
    let hi = if consume { 24u8 } else { 14 };
    Ok(match u.int_in_range(0u8..=hi)? {
        0 => {
            let mut d = vec![];
            if depth == 0 && u.ratio(1u8, 4u8)? {
                for _ in 0..u.int_in_range(1u8..=3)? {
                    d.push(dact(u, depth)?);
                }
            }
            Op::New(d)
        }
        1 => if depth == 0 && u.ratio(1u8, 8u8)? { Op::Repeat { op: Box::new(op(u, false, depth + 1)?), k: u.int_in_range(2u8..=12)? } } else { let h: u16 = u.arbitrary()?; if h & 7 == 7 { Op::CloneFrom { dst: h, src: u.arbitrary()? } } else { Op::CloneH(h) } },
        2 => Op::DropRoot(u.arbitrary()?),
        3 => if u.ratio(1u8, 3u8)? { Op::DropClosureRoots(u.arbitrary()?) } else { Op::DropRoot(u.arbitrary()?) },
        4 | 5 => Op::Store { owner: u.arbitrary()?, target: u.arbitrary()?, adopt: u.int_in_range(0u8..=2)? },
        6 => Op::AdoptSlot { pick: u.arbitrary()?, same_instance: u.arbitrary()? },
        7 => if u.ratio(1u8, 4u8)? { Op::LoopbackAdopt(u.arbitrary()?) } else { Op::Unadopt { a: u.arbitrary()?, b: u.arbitrary()? } },
        8 if u.ratio(1u8, 6u8)? => Op::ClearSlots { owner: u.arbitrary()?, leave: u.int_in_range(0u8..=2)?, unadopt: u.arbitrary()?, keep: u.arbitrary()? },
        8 => Op::Remove { owner: u.arbitrary()?, slot: u.arbitrary()?, unadopt: u.arbitrary()?, keep: u.arbitrary()? },
        9 if u.ratio(1u8, 8u8)? => Op::NewUninitAdopted { target: u.arbitrary()?, loopback: u.arbitrary()? },
        9 => Op::Downgrade(u.arbitrary()?),
        10 => { let h: u16 = u.arbitrary()?; if h & 7 == 7 { Op::WeakCloneFrom { dst: h, src: u.arbitrary()? } } else { Op::CloneWeak(h) } }
        11 => Op::DropWeak(u.arbitrary()?),
        12 => Op::Upgrade(u.arbitrary()?),
        13 => Op::StoreWeak { owner: u.arbitrary()?, w: u.arbitrary()? },
        14 => Op::RemoveWeak { owner: u.arbitrary()?, slot: u.arbitrary()? },
        15 => Op::TryUnwrap(u.arbitrary()?),
        16 => Op::MakeMut(u.arbitrary()?),
        17 => Op::GetMut(u.arbitrary()?),
        18 => Op::IntoRaw(u.arbitrary()?),
        19 => Op::FromRaw(u.arbitrary()?),
        20 => Op::IncStrong(u.arbitrary()?),
        21 => Op::DecStrong(u.arbitrary()?),
        22 => Op::DropLoose(u.arbitrary()?),
        23 => Op::WeakIntoRaw(u.arbitrary()?),
        _ => Op::WeakFromRaw(u.arbitrary()?),
    })
}

/// Bytes -> Script.  Modes with a known finding (ELIDE) are not fuzzed, so a
/// campaign is never ended by a known finding.
pub fn decode(data: &[u8]) -> Script {
    let mut u = Unstructured::new(data);
    let mode = match u.int_in_range(0u8..=3).unwrap_or(0) {
        0 | 1 => Mode::Safe,
        2 => Mode::Full,
        _ => Mode::Consume,
    };
    let layout_seed: u64 = u.arbitrary().unwrap_or(0);
    let mut ops = vec![];
    while !u.is_empty() && ops.len() < 200 {
        match op(&mut u, mode == Mode::Consume, 0) {
            Ok(o) => ops.push(o),
            Err(_) => break,
        }
    }
    let c0 = (layout_seed >> 16) as u16;
    Script { mode, layout_seed, ops, cleanup: vec![c0, (layout_seed >> 32) as u16, (layout_seed >> 48) as u16], arena_seed: None }
}

pub const FUZZ_VIEWS: &[View] = &[View::Premature, View::Mem, View::Orphan, View::Weak, View::Count, View::Table, View::LibPanic, View::Consume];

fn fuzz_views() -> u32 {
    FUZZ_VIEWS.iter().fold(0, |a, v| a | v.bit())
}

static INIT: std::sync::Once = std::sync::Once::new();

/// Body of the libFuzzer target.
pub fn run_bytes(data: &[u8]) {
    INIT.call_once(|| {
        exec::INPROC.store(true, std::sync::atomic::Ordering::Relaxed);
        exec::init_shared();
        crate::interp::install_panic_hook();
    });
    let s = decode(data);
    let sh = exec::shared();
    sh.enabled_views = fuzz_views();
    sh.done = 0;
    sh.op = 0;
    sh.phase = 0;
    let cfg = crate::world::Cfg {
        mode: s.mode,
        audit_tables: true,
        audit_leaks: false,
        cost_checks: false,
        exclude_known: false,
        digest: false,
        strict_loopback: false,
        shallow_clone: s.layout_seed & 1 == 1,
        clone_panics: 0,
        slot_consume: true,
        dtor_unwrap: false,
        dtor_stash: false,
        allow_consume: false,
        clone_reentrant: false,
        default_ctor: 0,
    };
    let r = std::panic::catch_unwind(std::panic::AssertUnwindSafe(|| crate::interp::run_script_body(&s, cfg)));
    if let Err(e) = r {
        if let Some(v) = e.downcast_ref::<exec::ViolationPanic>() {
            if v.enabled {
                eprintln!("cxcheck fuzz: {}\nscript: {}", v.msg, s.to_json());
                std::process::abort();
            }
        } else if e.is::<exec::EndCasePanic>() {
        } else {
            eprintln!("cxcheck fuzz: unexpected panic {}", crate::interp::take_panic_loc());
            std::process::abort();
        }
        std::mem::forget(e);
    }
}

/// `cxcheck fuzzjudge <PROP> <artifact> <out.json>`: decode a libFuzzer
/// artifact, write it as a replay file and re-judge it with E1.
/// Exit 1 if E1 reports a violation of PROP, 0 otherwise (3: other view).
pub fn judge_cmd(args: &[String]) -> i32 {
    if args.len() < 3 {
        eprintln!("usage: cxcheck fuzzjudge <PROP> <artifact> <out.json>");
        return 2;
    }
    let id = &args[0];
    let Ok(data) = std::fs::read(&args[1]) else { return 2 };
    let mut s = decode(&data);
    // the property's own mode restrictions apply when E1 re-judges the case
    if props::prop(id).is_none() {
        return 2;
    }
    if id == "C12" && s.mode != Mode::Consume {
        s.mode = Mode::Consume;
    }
    let rf = runner::ReplayFile { props: vec![id.clone()], note: format!("decoded from libFuzzer artifact {}", args[1]), tier: None, script: s.clone() };
    let _ = std::fs::write(&args[2], serde_json::to_string_pretty(&rf).unwrap());
    crate::arena::init();
    exec::init_shared();
    let r = runner::run_case(id, Tier::Thorough, &s);
    println!("fuzzjudge {}: {:?} {}", id, r.outcome, r.msg);
    match r.outcome {
        Outcome::Violation => 1,
        Outcome::OtherView => 3,
        _ => 0,
    }
}
