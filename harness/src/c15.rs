//! C15: tracing and destroying an orphaned group of N objects uses stack
//! space independent of N and visits each object a bounded number of times.
//!
//! Cases are size/shape parameters.  The graph is built in O(N + E) (each
//! node's first handle is *moved* into its predecessor, so construction does
//! not itself run N traces), then orphaned by one final drop executed on a
//! thread with a 128 KiB stack.  Counters (hook H2), not wall time, decide.

use crate::arena;
use crate::exec::{self, violate, CaseResult, View};
use crate::props::Tier;
use crate::runner::Kind;
use cactusref::{Adopt, Rc};
use proptest::collection::vec;
use proptest::prelude::*;
use serde::{Deserialize, Serialize};
use std::cell::RefCell;
use std::sync::atomic::{AtomicUsize, Ordering};

static DESTROYED: AtomicUsize = AtomicUsize::new(0);

/// `P` bytes of padding: the scaling cases run on a small payload (P = 0) and,
/// with `fat`, on one larger than a page (code paths that depend on
/// `size_of::<T>()` at scale).
struct Big<const P: usize> {
    pad: [u8; P],
    next: RefCell<Vec<Rc<Big<P>>>>,
}

impl<const P: usize> Drop for Big<P> {
    fn drop(&mut self) {
        DESTROYED.fetch_add(1, Ordering::Relaxed);
    }
}

#[derive(Clone, Debug, PartialEq, Eq, Serialize, Deserialize)]
pub struct ScaleCase {
    /// 0 ring, 1 ring with chords, 2 clique, 3 ring with self-adoptions and chords,
    /// 4 hub adopting n-1 spokes (zero-count-with-adoptions teardown of the hub),
    /// 5 two objects with n parallel adoptions and n unadopt/adopt churn rounds,
    /// 6 hub adopting n-1 spokes that each adopt the hub back (collected through
    /// the trace; n-1 links pending on the worklist at once)
    pub shape: u8,
    /// size selector, mapped log-uniformly onto [2, max_n(tier, shape)]
    pub size: u16,
    pub chords: Vec<(u32, u32)>,
    pub selfs: Vec<u32>,
    pub parallel: bool,
    /// instruction-count probe (deterministic linearity check): build the shape
    /// with `probe.0` and `probe.1` objects under valgrind/cachegrind and compare
    /// the instructions spent in the final drop
    #[serde(default)]
    pub probe: Option<(u32, u32)>,
    /// ring shapes: every member also records a same-handle self adoption
    /// (`adopt_unchecked(&x, &x)`, a loopback record)
    #[serde(default)]
    pub loopbacks: bool,
    /// sink logger level (see `exec::set_log_level_sel`; 0 = no logger): the
    /// library's log arguments are evaluated when the level admits them
    #[serde(default)]
    pub log: u8,
    /// ring shapes: one extra object without adoptions of its own (a leaf) is
    /// adopted by every ring member (an object with many distinct adopters and
    /// no forward link)
    #[serde(default)]
    pub leaf: bool,
    /// payload of 4200 bytes instead of a small one (at most 40000 objects)
    #[serde(default)]
    pub fat: bool,
}

fn max_n(tier: Tier, shape: u8) -> f64 {
    match (tier, shape) {
        (Tier::Quick, 2) => 120.0,
        (Tier::Thorough, 2) => 400.0,
        (Tier::Quick, _) => 20_000.0,
        (Tier::Thorough, _) => 300_000.0,
    }
}

pub fn n_of(c: &ScaleCase, tier: Tier) -> usize {
    let mx = max_n(tier, c.shape % 7);
    let f = c.size as f64 / 65535.0;
    let n = (2.0f64.ln() + f * (mx.ln() - 2.0f64.ln())).exp();
    (n.round() as usize).max(2)
}

const CAP: usize = 8;

/// Returns (objects, distinct recorded (owner,target) pairs, recorded adoptions).
unsafe fn build<const P: usize>(c: &ScaleCase, n: usize) -> (Box<Rc<Big<P>>>, usize, usize) {
    // one spare slot beyond CAP: reserved for the shared leaf (`leaf`)
    let mk = || Rc::new(Big::<P> { pad: [0x5A; P], next: RefCell::new(Vec::with_capacity(CAP + 1)) });
    // boxed so that its address stays valid when it is returned
    let h0: Box<Rc<Big<P>>> = Box::new(mk());
    // slot[i] points at a handle to node i that lives inside another node's Vec
    // (capacity is reserved, so the Vec never reallocates)
    let mut slot: Vec<*const Rc<Big<P>>> = vec![std::ptr::null(); n];
    slot[0] = &*h0 as *const Rc<Big<P>>;
    let mut pairs = std::collections::HashSet::new();
    let mut adoptions = 0usize;
    let shape = c.shape % 7;
    if shape == 4 {
        // hub 0 owns and adopts n-1 spokes (moved handles)
        let h0r: &Rc<Big<P>> = &*slot[0];
        *h0r.next.borrow_mut() = Vec::with_capacity(n + CAP);
        for k in 1..n {
            let h = mk();
            Rc::adopt_unchecked(h0r, &h);
            h0r.next.borrow_mut().push(h);
            pairs.insert((0, k));
            adoptions += 1;
        }
        return (h0, pairs.len(), adoptions);
    }
    if shape == 6 {
        let h0r: &Rc<Big<P>> = &*slot[0];
        *h0r.next.borrow_mut() = Vec::with_capacity(n + CAP);
        for k in 1..n {
            let h = mk();
            Rc::adopt_unchecked(h0r, &h);
            let back = Rc::clone(h0r);
            Rc::adopt_unchecked(&h, &back);
            h.next.borrow_mut().push(back);
            h0r.next.borrow_mut().push(h);
            pairs.insert((0, k));
            pairs.insert((k, 0));
            adoptions += 2;
        }
        return (h0, pairs.len(), adoptions);
    }
    if shape == 5 {
        // object 0 owns n handles to object 1, each adopted; then churn
        let h0r: &Rc<Big<P>> = &*slot[0];
        *h0r.next.borrow_mut() = Vec::with_capacity(n + CAP);
        let b = mk();
        for _ in 0..n {
            let cl = Rc::clone(&b);
            Rc::adopt_unchecked(h0r, &cl);
            h0r.next.borrow_mut().push(cl);
            adoptions += 1;
        }
        for _ in 0..n {
            Rc::unadopt(h0r, &b);
            Rc::adopt_unchecked(h0r, &b);
        }
        pairs.insert((0, 1));
        drop(b);
        return (h0, 1, adoptions);
    }
    let edge = |a: usize, b: usize, slot: &Vec<*const Rc<Big<P>>>, pairs: &mut std::collections::HashSet<(usize, usize)>, adoptions: &mut usize| {
        let ha: &Rc<Big<P>> = &*slot[a];
        let hb: &Rc<Big<P>> = &*slot[b];
        if ha.next.borrow().len() >= CAP {
            return;
        }
        let cl = Rc::clone(hb);
        Rc::adopt_unchecked(ha, &cl);
        ha.next.borrow_mut().push(cl);
        pairs.insert((a, b));
        *adoptions += 1;
    };
    if shape == 2 {
        // star 0 -> i by moving the only handle, then all other ordered pairs
        let h0r: &Rc<Big<P>> = &*slot[0];
        let mut star: Vec<Rc<Big<P>>> = Vec::with_capacity(n);
        for _ in 1..n {
            star.push(mk());
        }
        // node 0 needs room for n-1 moved handles
        *h0r.next.borrow_mut() = Vec::with_capacity(n + CAP);
        for (k, h) in star.into_iter().enumerate() {
            Rc::adopt_unchecked(h0r, &h);
            h0r.next.borrow_mut().push(h);
            let v = h0r.next.borrow();
            slot[k + 1] = &v[k] as *const Rc<Big<P>>;
            pairs.insert((0, k + 1));
            adoptions += 1;
        }
        for a in 1..n {
            let ha: &Rc<Big<P>> = &*slot[a];
            *ha.next.borrow_mut() = Vec::with_capacity(n + CAP);
        }
        for a in 0..n {
            for b in 0..n {
                if a != b && !(a == 0) {
                    let ha: &Rc<Big<P>> = &*slot[a];
                    let hb: &Rc<Big<P>> = &*slot[b];
                    let cl = Rc::clone(hb);
                    Rc::adopt_unchecked(ha, &cl);
                    ha.next.borrow_mut().push(cl);
                    pairs.insert((a, b));
                    adoptions += 1;
                }
            }
        }
    } else {
        for i in 1..n {
            let prev: &Rc<Big<P>> = &*slot[i - 1];
            let h = mk();
            Rc::adopt_unchecked(prev, &h);
            prev.next.borrow_mut().push(h);
            let v = prev.next.borrow();
            slot[i] = &v[v.len() - 1] as *const Rc<Big<P>>;
            pairs.insert((i - 1, i));
            adoptions += 1;
        }
        // close the ring
        edge(n - 1, 0, &slot, &mut pairs, &mut adoptions);
        if c.parallel {
            edge(n - 1, 0, &slot, &mut pairs, &mut adoptions);
        }
        if shape == 1 || shape == 3 {
            for &(a, b) in &c.chords {
                edge(a as usize % n, b as usize % n, &slot, &mut pairs, &mut adoptions);
            }
        }
        if shape == 3 {
            for &a in &c.selfs {
                let a = a as usize % n;
                edge(a, a, &slot, &mut pairs, &mut adoptions);
            }
        }
        if c.loopbacks {
            for i in 0..n {
                let h: &Rc<Big<P>> = &*slot[i];
                Rc::adopt_unchecked(h, h);
                adoptions += 1;
            }
        }
        if c.leaf {
            let leaf = mk();
            for i in 0..n {
                let h: &Rc<Big<P>> = &*slot[i];
                if h.next.borrow().len() > CAP {
                    continue;
                }
                let cl = Rc::clone(&leaf);
                Rc::adopt_unchecked(h, &cl);
                h.next.borrow_mut().push(cl);
                adoptions += 1;
            }
            pairs.insert((usize::MAX, usize::MAX));
            drop(leaf);
        }
    }
    (h0, pairs.len(), adoptions)
}

/// `cxcheck scaleprobe <case.json> <n> <drop:0|1>`: build the shape with n
/// objects and (optionally) perform the final drop, in-process, nothing else.
/// Run under cachegrind by `ir_probe`; the difference between drop=1 and
/// drop=0 is the cost of the final drop alone.
pub fn scaleprobe_cmd(args: &[String]) -> i32 {
    let c: ScaleCase = serde_json::from_str(&std::fs::read_to_string(&args[0]).unwrap()).unwrap();
    let n: usize = args[1].parse().unwrap();
    let do_drop = args[2] == "1";
    exec::set_log_level_sel(c.log);
    if c.fat {
        scaleprobe_p::<FAT>(&c, n, do_drop)
    } else {
        scaleprobe_p::<0>(&c, n, do_drop)
    }
}

const FAT: usize = 4200;

fn scaleprobe_p<const P: usize>(c: &ScaleCase, n: usize, do_drop: bool) -> i32 {
    let (h0, pairs, adoptions) = unsafe { build::<P>(c, n) };
    if do_drop {
        DESTROYED.store(0, Ordering::Relaxed);
        drop(*h0);
        let d = DESTROYED.load(Ordering::Relaxed);
        println!("destroyed={} pairs={} adoptions={}", d, pairs, adoptions);
        let expect = if c.shape % 7 == 5 { 2 } else { n + usize::from(c.leaf && matches!(c.shape % 7, 0 | 1 | 3)) };
        if d != expect {
            return 3;
        }
    } else {
        println!("destroyed=0 pairs={} adoptions={}", pairs, adoptions);
        std::mem::forget(h0);
    }
    // leave without running any further destructors
    unsafe { libc::_exit(0) }
}

fn cachegrind(case_file: &std::path::Path, n: u32, do_drop: bool) -> Result<(u64, u64), String> {
    let exe = std::env::current_exe().map_err(|e| e.to_string())?;
    let out = std::process::Command::new("valgrind")
        .arg("--tool=cachegrind")
        .arg("--cache-sim=no")
        .arg("--cachegrind-out-file=/dev/null")
        .arg(&exe)
        .arg("scaleprobe")
        .arg(case_file)
        .arg(n.to_string())
        .arg(if do_drop { "1" } else { "0" })
        .output()
        .map_err(|e| format!("cannot run valgrind: {}", e))?;
    if !out.status.success() {
        return Err(format!("probe exited with {:?}", out.status.code()));
    }
    let err = String::from_utf8_lossy(&out.stderr);
    let so = String::from_utf8_lossy(&out.stdout);
    let ir = err
        .lines()
        .find(|l| l.contains("refs:"))
        .map(|l| l.rsplit("refs:").next().unwrap().chars().filter(|c| c.is_ascii_digit()).collect::<String>())
        .and_then(|d| d.parse::<u64>().ok())
        .ok_or_else(|| "no instruction count in cachegrind output".to_string())?;
    let adoptions = so.split("adoptions=").nth(1).and_then(|x| x.trim().parse::<u64>().ok()).unwrap_or(0);
    Ok((ir, adoptions))
}

/// Deterministic linearity probe: instructions of the final drop for n_small
/// and n_big objects; the ratio must stay within 1.6x of the ratio of
/// (objects + adoptions).
fn ir_probe(c: &ScaleCase, small: u32, big: u32) -> CaseResult {
    let mut r = CaseResult {
        outcome: exec::Outcome::Pass,
        view: 0,
        op: 0,
        msg: String::new(),
        labels: 1 << L_IR,
        nontrivial: true,
        kf_id: 0,
        digest: 0,
        counters: [0; exec::NCOUNTERS],
        signal: 0,
    };
    let dir = std::env::temp_dir().join(format!("cx-irprobe-{}", std::process::id()));
    let _ = std::fs::create_dir_all(&dir);
    let f = dir.join("case.json");
    let mut cc = c.clone();
    cc.probe = None;
    let _ = std::fs::write(&f, serde_json::to_string(&cc).unwrap());
    let run = || -> Result<(u64, u64, u64, u64, u64, u64), String> {
        let (b0, _) = cachegrind(&f, small, false)?;
        let (b1, a_small) = cachegrind(&f, small, true)?;
        let (c0, _) = cachegrind(&f, big, false)?;
        let (c1, a_big) = cachegrind(&f, big, true)?;
        Ok((b1.saturating_sub(b0), a_small, c1.saturating_sub(c0), a_big, b0, c0))
    };
    let res = run();
    let _ = std::fs::remove_dir_all(&dir);
    match res {
        Err(e) => {
            // cannot measure (no valgrind): undecided, never a violation
            r.outcome = exec::Outcome::Internal;
            r.msg = format!("instruction probe could not run: {}", e);
        }
        Ok((ir_small, a_small, ir_big, a_big, build_small, build_big)) => {
            let size_small = small as u64 + a_small;
            let size_big = big as u64 + a_big;
            let size_ratio = size_big as f64 / size_small as f64;
            let ir_ratio = ir_big as f64 / ir_small.max(1) as f64;
            r.counters[30] = ir_small;
            r.counters[31] = ir_big;
            r.counters[32] = (ir_ratio * 1000.0) as u64;
            r.counters[33] = (size_ratio * 1000.0) as u64;
            r.msg = format!(
                "final drop: {} instructions for {} objects+adoptions, {} for {} (instruction ratio {:.2}, size ratio {:.2})",
                ir_small, size_small, ir_big, size_big, ir_ratio, size_ratio
            );
            // the same bound for building the shape (adopt / unadopt / clone calls)
            let build_ratio = build_big as f64 / build_small.max(1) as f64;
            r.msg = format!("{}; construction: {} vs {} instructions (ratio {:.2})", r.msg, build_small, build_big, build_ratio);
            if build_ratio > 1.6 * size_ratio {
                r.outcome = exec::Outcome::Violation;
                r.view = View::Scale as u32;
                r.msg = format!("[scale] the cost of building the adoption graph (adopt/unadopt/clone calls) does not grow linearly: {}", r.msg);
            }
            if ir_ratio > 1.6 * size_ratio {
                r.outcome = exec::Outcome::Violation;
                r.view = View::Scale as u32;
                r.msg = format!("[scale] the cost of the final drop does not grow linearly: {}", r.msg);
            }
        }
    }
    r
}

pub const L_IR: u32 = 6;
pub const L_HUB: u32 = 7;
pub const L_CHURN: u32 = 8;
pub const L_MUTUAL: u32 = 9;

pub struct ScaleKind;

pub const L_BIG: u32 = 0;
pub const L_RING: u32 = 1;
pub const L_CHORDS: u32 = 2;
pub const L_CLIQUE: u32 = 3;
pub const L_SELF: u32 = 4;
pub const L_HUGE: u32 = 5;

impl Kind for ScaleKind {
    type Case = ScaleCase;
    fn strategy(_id: &str, _tier: Tier, _variant: u64) -> BoxedStrategy<ScaleCase> {
        (0u8..7, any::<u16>(), vec((any::<u32>(), any::<u32>()), 0..48), vec(any::<u32>(), 0..16), any::<bool>(), 0u8..4, 0u8..16, 0u8..16)
            .prop_map(|(shape, size, chords, selfs, parallel, lb, lg, lf)| ScaleCase { shape, size, chords, selfs, parallel, probe: None, loopbacks: lb == 0, log: if lg < 8 { lg } else { 0 }, leaf: lf % 4 == 0, fat: lf >= 12 })
            .boxed()
    }
    fn run(_id: &str, tier: Tier, c: &ScaleCase) -> CaseResult {
        if let Some((small, big)) = c.probe {
            return ir_probe(c, small, big);
        }
        let views = View::Scale.bit() | View::Crash.bit() | View::Abort.bit() | View::LibPanic.bit();
        let n = n_of(c, tier);
        // the fat payload at most 40000 times (170 MB)
        let n = if c.fat { n.min(40_000) } else { n };
        let mut r = exec::run_forked(views, 120, || {
            if c.fat {
                scale_body::<FAT>(c, n)
            } else {
                scale_body::<0>(c, n)
            }
        });
        // a stack overflow on the small-stack thread cannot run the fault handler
        if r.outcome == exec::Outcome::OtherView || (r.outcome == exec::Outcome::Violation && r.signal != 0) {
            r.outcome = exec::Outcome::Violation;
            r.msg = format!("{} (N={}, shape {}): the process died during the final drop; stack overflow on the 128 KiB stack is the expected cause", r.msg, n, c.shape % 7);
        }
        let big = r.labels & (1 << L_BIG) != 0 || (c.shape % 7 == 2 && n >= 40);
        r.nontrivial = big;
        r
    }
    fn compact(c: &ScaleCase) -> String {
        if let Some((a, b)) = c.probe {
            return format!("instruction probe shape={} N={} vs N={} chords={} selfs={}", ["ring", "ring+chords", "clique", "ring+self+chords", "hub", "parallel+churn", "mutual hub"][(c.shape % 7) as usize], a, b, c.chords.len(), c.selfs.len());
        }
        format!(
            "shape={} size_sel={} (N quick={} thorough={}) chords={} selfs={} parallel={}",
            ["ring", "ring+chords", "clique", "ring+self+chords", "hub", "parallel+churn", "mutual hub"][(c.shape % 7) as usize],
            c.size,
            n_of(c, Tier::Quick),
            n_of(c, Tier::Thorough),
            c.chords.len(),
            c.selfs.len(),
            c.parallel
        )
    }
    fn label_names() -> Vec<String> {
        let mut v: Vec<String> = ["N>=1000", "ring", "ring_with_chords", "clique", "ring_with_self_adoptions", "N>=100000", "instruction_count_probe", "hub_zero_count_teardown", "parallel_adoptions_with_churn", "mutual_hub"].iter().map(|s| s.to_string()).collect();
        while v.len() < 64 {
            v.push(String::new());
        }
        v
    }
    fn totals(c: &[u64]) -> serde_json::Value {
        serde_json::json!({
            "objects": c[20], "distinct_adoption_pairs": c[21], "adoptions": c[22],
            "traces_in_final_drops": c[23], "worklist_pops": c[24], "tables_scanned": c[25], "entries_scanned": c[26],
            "tables_scanned_per_object": if c[20] > 0 { c[25] as f64 / c[20] as f64 } else { 0.0 },
            "instruction_probes": {"final_drop_instructions_small_sum": c[30], "final_drop_instructions_big_sum": c[31]},
            "pops_per_object_plus_adoption": if c[20] > 0 { c[24] as f64 / (c[20] + c[22]) as f64 } else { 0.0 },
        })
    }
    fn assumptions() -> Vec<String> {
        vec![
            "sizes up to 20k (quick) / 300k ring, 400 clique (thorough); linearity is judged by hook counters (tables scanned <= 8N+8, pops <= 8(N+E)+8 (any constant number of visits per object is accepted; growth is judged by the instruction-count probes)), wall time is only reported".into(),
            "the final drop runs on a thread with a 128 KiB stack; any death of the process there is reported as a violation".into(),
        ]
    }
}

struct SendPtr<const P: usize>(*const Big<P>);
unsafe impl<const P: usize> Send for SendPtr<P> {}

fn scale_body<const P: usize>(c: &ScaleCase, n: usize) {
        let sh = exec::shared();
        // plain counting allocator: no guard pages for large N
        arena::st().count_only = true;
        exec::set_log_level_sel(c.log);
        let (h0, pairs, adoptions) = unsafe { build::<P>(c, n) };
        sh.counters[20] = n as u64;
        sh.counters[21] = pairs as u64;
        sh.counters[22] = adoptions as u64;
        DESTROYED.store(0, Ordering::Relaxed);
        cactusref::__verif::reset();
        exec::set_msg(&format!("final drop of an orphaned group of {} objects / {} adoptions on a 128 KiB stack", n, adoptions));
        sh.phase = exec::Phase::Lib as u32;
        let h0 = std::sync::Mutex::new(Some(SendPtr(Rc::into_raw(*h0))));
        let t = std::thread::Builder::new()
            .stack_size(128 * 1024)
            .spawn(move || {
                let p = h0.lock().unwrap().take().unwrap();
                let h = unsafe { Rc::from_raw(p.0) };
                drop(h);
            })
            .expect("spawn");
        let joined = t.join();
        sh.phase = 0;
        if joined.is_err() {
            violate(View::LibPanic, "the final drop panicked");
        }
        let cn = cactusref::__verif::counters();
        let d = DESTROYED.load(Ordering::Relaxed);
        sh.counters[23] = cn[0] as u64;
        sh.counters[24] = cn[1] as u64;
        sh.counters[25] = cn[2] as u64;
        sh.counters[26] = cn[3] as u64;
        let expect = if c.shape % 7 == 5 { 2 } else { n + usize::from(c.leaf && matches!(c.shape % 7, 0 | 1 | 3)) };
        if d != expect {
            violate(View::Scale, &format!("orphaned group of {} objects: only {} were destroyed by the final drop", expect, d));
        }
        let (calls, pops, visits, edges) = (cn[0], cn[1], cn[2], cn[3]);
        if visits > 8 * n + 8 {
            violate(
                View::Scale,
                &format!("tracing a group of {} objects scanned {} link tables over {} trace(s) (bound 8N+8): not one bounded visit per object", n, visits, calls),
            );
        }
        if pops > 8 * (n + adoptions) + 8 || edges > 16 * (n + adoptions) + 16 {
            violate(
                View::Scale,
                &format!("tracing a group of {} objects / {} adoptions popped {} worklist items and scanned {} entries over {} trace(s): not linear", n, adoptions, pops, edges, calls),
            );
        }
        let mut l = 0u64;
        if n >= 1000 {
            l |= 1 << L_BIG;
        }
        if n >= 100_000 {
            l |= 1 << L_HUGE;
        }
        l |= 1 << match c.shape % 7 {
            0 => L_RING,
            1 => L_CHORDS,
            2 => L_CLIQUE,
            3 => L_SELF,
            4 => L_HUB,
            5 => L_CHURN,
            _ => L_MUTUAL,
        };
        sh.labels = l;
}
