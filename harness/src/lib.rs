#![allow(dead_code)]
#![feature(alloc_error_hook)]
//! cxcheck library: shared by the `cxcheck` binary (fork-per-case executor E1)
//! and the cargo-fuzz target (in-process executor E2).

pub mod arena;
pub mod big;
pub mod c07;
pub mod c15;
pub mod consume;
pub mod exec;
pub mod ext;
pub mod fuzz;
pub mod gen;
pub mod interp;
pub mod known;
pub mod model;
pub mod props;
pub mod runner;
pub mod script;
pub mod sweep;
pub mod world;
