//! Checking allocator (DESIGN §3.4).
//!
//! While *tracking* is on (only inside calls into cactusref) allocations are
//! served from an arena mapped at a fixed address, one or more private pages
//! per block, never reused within a case.  Freed blocks are `PROT_NONE`d so any
//! later access faults; double / invalid frees are reported at once.
//! Everything else goes to the system allocator.  `dealloc` is routed by
//! address, `alloc` by the tracking flag.
//!
//! Single-threaded by construction (worker processes never spawn threads while
//! tracking is on), so plain statics are used.

use std::alloc::{GlobalAlloc, Layout, System};

pub const ARENA_BASE: usize = 0x2000_0000_0000;
pub const PAGE: usize = 4096;
pub const ARENA_PAGES: usize = 1 << 16; // 256 MiB of address space
pub const ARENA_SIZE: usize = ARENA_PAGES * PAGE;
pub const MAX_BLOCKS: usize = 1 << 15;

#[derive(Clone, Copy, PartialEq, Eq, Debug)]
#[repr(u8)]
pub enum CtxKind {
    None = 0,
    New = 1,
    Adopt = 2,
    Unadopt = 3,
    Drop = 4,
    Clone = 5,
    Weak = 6,
    Consume = 7,
    Other = 8,
}

#[derive(Clone, Copy)]
pub struct Block {
    pub addr: usize,
    pub size: usize,
    pub align: usize,
    pub page0: u32,
    pub npages: u32,
    pub freed: bool,
    pub kind: CtxKind,
    /// For `New`: the object id whose RcBox this is. For `Adopt`: owner.
    pub a: u32,
    /// For `Adopt`: target.
    pub b: u32,
    pub op: u32,
    /// Bitmask of objects alive when the block was allocated (ids < 64).
    pub alive_mask: u64,
    pub freed_op: u32,
}

const EMPTY_BLOCK: Block = Block {
    addr: 0,
    size: 0,
    align: 0,
    page0: 0,
    npages: 0,
    freed: false,
    kind: CtxKind::None,
    a: 0,
    b: 0,
    op: 0,
    alive_mask: 0,
    freed_op: 0,
};

pub struct ArenaState {
    pub mapped: bool,
    pub track: bool,
    /// When set, tracked allocations are only counted (served by the system
    /// allocator): used for large-N scaling runs (C15).
    pub count_only: bool,
    pub next_page: usize,
    pub nblocks: usize,
    pub rng: u64,
    pub perturb: bool,
    pub ctx_kind: CtxKind,
    pub ctx_a: u32,
    pub ctx_b: u32,
    pub ctx_op: u32,
    pub ctx_alive: u64,
    pub n_alloc: u64,
    pub n_free: u64,
    pub live: u64,
    pub exhausted: bool,
    /// allocation-failure injection: when > 0, counts tracked allocations down;
    /// the one that brings it to 0 fails (returns null) once
    /// RcBox allocations (context `New`) are recycled LIFO for the next request
    /// of the same layout, as a real allocator would: a stale address then names
    /// a *new live object* instead of unmapped memory
    pub recycle: bool,
    pub n_recycled: u32,
    pub n_reused: u32,
    pub fail_in: u64,
    /// an injected failure has happened and the library call has not returned yet
    pub fail_fired: bool,
    /// Set by the allocator when it detects a bad free; the payload is read
    /// by `take_error`.
    pub error: Option<(ErrKind, usize)>,
}

#[derive(Clone, Copy, Debug, PartialEq, Eq)]
pub enum ErrKind {
    DoubleFree,
    InvalidFree,
    LayoutMismatch,
}

pub static mut ST: ArenaState = ArenaState {
    mapped: false,
    track: false,
    count_only: false,
    next_page: 0,
    nblocks: 0,
    rng: 0x9E37_79B9_7F4A_7C15,
    perturb: true,
    ctx_kind: CtxKind::None,
    ctx_a: 0,
    ctx_b: 0,
    ctx_op: 0,
    ctx_alive: 0,
    n_alloc: 0,
    n_free: 0,
    live: 0,
    exhausted: false,
    recycle: false,
    n_recycled: 0,
    n_reused: 0,
    fail_in: 0,
    fail_fired: false,
    error: None,
};

static mut RECYCLE: [u32; 64] = [0; 64];
static mut BLOCKS: *mut Block = std::ptr::null_mut();
static mut PAGE2BLOCK: *mut u32 = std::ptr::null_mut();

#[allow(static_mut_refs)]
#[inline]
pub fn st() -> &'static mut ArenaState {
    unsafe { &mut ST }
}

pub fn blocks() -> &'static [Block] {
    unsafe { std::slice::from_raw_parts(BLOCKS, st().nblocks) }
}

/// Map the arena and its side tables.  Called once in the worker before any
/// case is forked; children inherit the (untouched) mappings.
pub fn init() {
    unsafe {
        let s = st();
        if s.mapped {
            return;
        }
        let p = libc::mmap(
            ARENA_BASE as *mut libc::c_void,
            ARENA_SIZE,
            libc::PROT_READ | libc::PROT_WRITE,
            libc::MAP_PRIVATE | libc::MAP_ANONYMOUS | libc::MAP_NORESERVE | libc::MAP_FIXED_NOREPLACE,
            -1,
            0,
        );
        if p as usize != ARENA_BASE {
            eprintln!("cxcheck: cannot map arena at fixed address (got {:p})", p);
            std::process::exit(2);
        }
        let b = libc::mmap(
            std::ptr::null_mut(),
            MAX_BLOCKS * std::mem::size_of::<Block>(),
            libc::PROT_READ | libc::PROT_WRITE,
            libc::MAP_PRIVATE | libc::MAP_ANONYMOUS | libc::MAP_NORESERVE,
            -1,
            0,
        );
        let m = libc::mmap(
            std::ptr::null_mut(),
            ARENA_PAGES * 4,
            libc::PROT_READ | libc::PROT_WRITE,
            libc::MAP_PRIVATE | libc::MAP_ANONYMOUS | libc::MAP_NORESERVE,
            -1,
            0,
        );
        if b == libc::MAP_FAILED || m == libc::MAP_FAILED {
            eprintln!("cxcheck: cannot map arena side tables");
            std::process::exit(2);
        }
        BLOCKS = b as *mut Block;
        PAGE2BLOCK = m as *mut u32;
        s.mapped = true;
    }
}

/// Seed the layout perturbation for this case (child side).
pub fn seed_layout(seed: u64, perturb: bool) {
    let s = st();
    s.rng = seed ^ 0x9E37_79B9_7F4A_7C15;
    s.perturb = perturb;
    // A seed-dependent base shift so that even the first block moves.
    s.next_page = if perturb { (next_rand() % 64) as usize } else { 0 };
}

#[inline]
fn next_rand() -> u64 {
    // splitmix64, state in ST.rng (seeded from the generated layout_seed)
    let s = st();
    s.rng = s.rng.wrapping_add(0x9E37_79B9_7F4A_7C15);
    let mut z = s.rng;
    z = (z ^ (z >> 30)).wrapping_mul(0xBF58_476D_1CE4_E5B9);
    z = (z ^ (z >> 27)).wrapping_mul(0x94D0_49BB_1331_11EB);
    z ^ (z >> 31)
}

#[inline]
pub fn in_arena(p: usize) -> bool {
    p >= ARENA_BASE && p < ARENA_BASE + ARENA_SIZE
}

/// Block index covering address `p`, if any.
pub fn block_of(p: usize) -> Option<usize> {
    if !in_arena(p) || unsafe { PAGE2BLOCK.is_null() } {
        return None;
    }
    let page = (p - ARENA_BASE) / PAGE;
    let v = unsafe { *PAGE2BLOCK.add(page) };
    if v == 0 {
        None
    } else {
        Some((v - 1) as usize)
    }
}

#[allow(static_mut_refs)]
unsafe fn arena_alloc(layout: Layout) -> *mut u8 {
    let s = st();
    if s.recycle && s.ctx_kind == CtxKind::New {
        let n = s.n_recycled as usize;
        for k in (0..n).rev() {
            let idx = RECYCLE[k] as usize;
            let b = &mut *BLOCKS.add(idx);
            if b.size == layout.size() && b.align == layout.align() {
                RECYCLE.copy_within(k + 1..n, k);
                s.n_recycled -= 1;
                s.n_reused += 1;
                b.freed = false;
                b.kind = s.ctx_kind;
                b.a = s.ctx_a;
                b.b = s.ctx_b;
                b.op = s.ctx_op;
                b.alive_mask = s.ctx_alive;
                b.freed_op = 0;
                s.n_alloc += 1;
                s.live += 1;
                std::ptr::write_bytes(b.addr as *mut u8, 0x5C, layout.size());
                return b.addr as *mut u8;
            }
        }
    }
    let size = layout.size().max(1);
    let align = layout.align().max(8);
    let (gap, off) = if s.perturb {
        let r = next_rand();
        let gap = (r & 3) as usize;
        let room = (PAGE - (size % PAGE)) % PAGE;
        // offsets are multiples of the requested alignment only (at least 8): a
        // block of an 8-aligned type may start at 8 mod 16, which the allocator
        // contract allows even though common mallocs never do it
        let slots = room / align;
        let off = if slots > 0 { ((r >> 8) as usize % (slots + 1)) * align } else { 0 };
        (gap, off)
    } else {
        (0, 0)
    };
    let npages = (off + size + PAGE - 1) / PAGE;
    let page0 = s.next_page + gap;
    if page0 + npages + 1 >= ARENA_PAGES || s.nblocks + 1 >= MAX_BLOCKS {
        s.exhausted = true;
        return System.alloc(layout);
    }
    // one guard gap page after every block (never handed out)
    s.next_page = page0 + npages + 1;
    let addr = ARENA_BASE + page0 * PAGE + off;
    let idx = s.nblocks;
    *BLOCKS.add(idx) = Block {
        addr,
        size: layout.size(),
        align: layout.align(),
        page0: page0 as u32,
        npages: npages as u32,
        freed: false,
        kind: s.ctx_kind,
        a: s.ctx_a,
        b: s.ctx_b,
        op: s.ctx_op,
        alive_mask: s.ctx_alive,
        freed_op: 0,
    };
    s.nblocks += 1;
    for p in page0..page0 + npages {
        *PAGE2BLOCK.add(p) = (idx + 1) as u32;
    }
    s.n_alloc += 1;
    s.live += 1;
    // fresh arena pages are zero; real allocators hand out stale bytes: fill the
    // block so that a read of storage the library never initialised is visible
    // (0xFF..FF also happens to be the library's "moved out" count sentinel)
    std::ptr::write_bytes(addr as *mut u8, if s.rng & 0x100 == 0 { 0xA5 } else { 0xFF }, layout.size());
    addr as *mut u8
}

unsafe fn arena_free(ptr: *mut u8, layout: Layout) {
    let s = st();
    let p = ptr as usize;
    match block_of(p) {
        None => {
            if s.error.is_none() {
                s.error = Some((ErrKind::InvalidFree, p));
            }
            crate::exec::on_alloc_error();
        }
        Some(idx) => {
            let b = &mut *BLOCKS.add(idx);
            if b.freed {
                if s.error.is_none() {
                    s.error = Some((ErrKind::DoubleFree, idx));
                }
                crate::exec::on_alloc_error();
                return;
            }
            if b.addr != p {
                if s.error.is_none() {
                    s.error = Some((ErrKind::InvalidFree, p));
                }
                crate::exec::on_alloc_error();
                return;
            }
            if b.size != layout.size() || b.align != layout.align() {
                if s.error.is_none() {
                    s.error = Some((ErrKind::LayoutMismatch, idx));
                }
                crate::exec::on_alloc_error();
                return;
            }
            b.freed = true;
            b.freed_op = s.ctx_op;
            s.n_free += 1;
            s.live -= 1;
            #[allow(static_mut_refs)]
            if s.recycle && b.kind == CtxKind::New && (s.n_recycled as usize) < RECYCLE.len() {
                // stays mapped: it will be handed out again
                RECYCLE[s.n_recycled as usize] = idx as u32;
                s.n_recycled += 1;
                return;
            }
            libc::mprotect(
                (ARENA_BASE + b.page0 as usize * PAGE) as *mut libc::c_void,
                b.npages as usize * PAGE,
                libc::PROT_NONE,
            );
        }
    }
}

pub struct CheckingAlloc;

unsafe impl GlobalAlloc for CheckingAlloc {
    #[inline]
    unsafe fn alloc(&self, layout: Layout) -> *mut u8 {
        let s = st();
        if s.track {
            if s.fail_in > 0 {
                s.fail_in -= 1;
                if s.fail_in == 0 {
                    // the library either handles the failure or ends the process
                    // (handle_alloc_error): both are fine, see exec / interp
                    s.fail_fired = true;
                    // whatever the failure path allocates is none of the accounting's business
                    crate::exec::shared().expect_abort = 1;
                    crate::exec::shared().after_abort = 0;
                    return std::ptr::null_mut();
                }
            }
            if s.count_only {
                s.n_alloc += 1;
                s.live += 1;
                return System.alloc(layout);
            }
            arena_alloc(layout)
        } else {
            System.alloc(layout)
        }
    }

    #[inline]
    unsafe fn dealloc(&self, ptr: *mut u8, layout: Layout) {
        if in_arena(ptr as usize) {
            arena_free(ptr, layout)
        } else {
            let s = st();
            if s.track && s.count_only {
                s.n_free += 1;
                s.live = s.live.wrapping_sub(1);
            }
            System.dealloc(ptr, layout)
        }
    }

    #[inline]
    unsafe fn alloc_zeroed(&self, layout: Layout) -> *mut u8 {
        let p = self.alloc(layout);
        if !p.is_null() {
            std::ptr::write_bytes(p, 0, layout.size());
        }
        p
    }

    #[inline]
    unsafe fn realloc(&self, ptr: *mut u8, layout: Layout, new_size: usize) -> *mut u8 {
        let s = st();
        if !in_arena(ptr as usize) && !s.track {
            return System.realloc(ptr, layout, new_size);
        }
        let new_layout = Layout::from_size_align_unchecked(new_size, layout.align());
        let np = self.alloc(new_layout);
        if !np.is_null() {
            std::ptr::copy_nonoverlapping(ptr, np, layout.size().min(new_size));
            self.dealloc(ptr, layout);
        }
        np
    }
}

/// RAII guard switching tracking on (inside library calls) or off (inside
/// harness code that the library calls back into).
pub struct TrackGuard {
    prev: bool,
}

impl Drop for TrackGuard {
    #[inline]
    fn drop(&mut self) {
        st().track = self.prev;
    }
}

#[inline]
pub fn track_on() -> TrackGuard {
    let s = st();
    let prev = s.track;
    s.track = true;
    TrackGuard { prev }
}

#[inline]
pub fn track_off() -> TrackGuard {
    let s = st();
    let prev = s.track;
    s.track = false;
    TrackGuard { prev }
}

/// Set the allocation context used to attribute blocks; returns the previous
/// context so nested calls can restore it.
#[derive(Clone, Copy)]
pub struct Ctx {
    pub kind: CtxKind,
    pub a: u32,
    pub b: u32,
}

pub fn set_ctx(kind: CtxKind, a: u32, b: u32) -> Ctx {
    let s = st();
    let prev = Ctx { kind: s.ctx_kind, a: s.ctx_a, b: s.ctx_b };
    s.ctx_kind = kind;
    s.ctx_a = a;
    s.ctx_b = b;
    prev
}

pub fn restore_ctx(c: Ctx) {
    let s = st();
    s.ctx_kind = c.kind;
    s.ctx_a = c.a;
    s.ctx_b = c.b;
}
