//! Reference model (DESIGN §3.3): an explicit-state abstraction of "which
//! handle instances exist, which adoptions are recorded, which values have
//! been destroyed", driven by the script and by the event log.

use std::collections::BTreeMap;

pub type Oid = u32;
pub const NONE: Oid = u32::MAX;

#[derive(Clone, Copy, PartialEq, Eq, Debug)]
pub enum St {
    Alive,
    /// destructor has begun
    Dying,
    /// destructor has finished
    Dead,
    /// value moved out of the allocation (try_unwrap / make_mut); the
    /// allocation was given up without running a destructor
    Moved,
}

#[derive(Clone, Copy, PartialEq, Eq, Debug)]
pub enum HLoc {
    Root(usize),
    Slot(Oid, usize),
}

#[derive(Clone, Debug)]
pub struct MObj {
    pub st: St,
    /// strong handle instances held by the value, in slot order
    pub slots: Vec<Oid>,
    /// Weak handle instances held by the value (NONE = `Weak::new()`)
    pub wslots: Vec<Oid>,
    /// the value lives outside any Rc (result of try_unwrap)
    pub loose: bool,
    pub addr: usize,
    pub value_addr: usize,
    /// teardown was interrupted by a panic: its memory may leak (C11)
    pub panicked: bool,
    pub ever_recorded: bool,
    /// how the object died: 0 not, 1 plain, 2 zero-count with adoptions, 3 group
    pub death_path: u8,
    pub has_dscript: bool,
}

#[derive(Clone, Debug, Default)]
pub struct Cost {
    pub table_empty: bool,
    pub trace_calls: usize,
    pub allocs: u64,
    pub frees: u64,
    pub valid: bool,
}

#[derive(Clone, Debug)]
pub struct Bracket {
    pub target: Oid,
    /// target was already destroyed when the handle was dropped
    pub inert: bool,
    /// target is under an obligation of an enclosing open bracket
    pub covered: bool,
    /// 0 none, 1 rule A (orphaned group), 2 rule B (last handle)
    pub rule: u8,
    pub obligation: Vec<Oid>,
    pub vchildren: Vec<Oid>,
    pub first_v_time: u64,
    pub pending_weak: Vec<(Oid, bool)>,
    pub cost: Cost,
    pub had_records: bool,
    pub lib_counters: [usize; 10],
}

#[derive(Clone, Debug, Default)]
pub struct Model {
    pub objs: Vec<MObj>,
    pub roots: Vec<Oid>,
    pub wroots: Vec<Oid>,
    pub raws: Vec<Oid>,
    /// Weak handles in raw form (`Weak::into_raw`), NONE = dangling
    pub wraws: Vec<Oid>,
    /// recorded adoptions owner -> target (multiplicity)
    pub r: BTreeMap<(Oid, Oid), usize>,
    /// loopback records (same-instance adopt)
    pub l: BTreeMap<Oid, usize>,
    pub stack: Vec<Bracket>,
    pub time: u64,
}

impl Model {
    pub fn n(&self) -> usize {
        self.objs.len()
    }

    pub fn new_obj(&mut self, addr: usize, value_addr: usize, has_dscript: bool) -> Oid {
        self.objs.push(MObj {
            st: St::Alive,
            slots: vec![],
            wslots: vec![],
            loose: false,
            addr,
            value_addr,
            panicked: false,
            ever_recorded: false,
            death_path: 0,
            has_dscript,
        });
        (self.objs.len() - 1) as Oid
    }

    /// Number of strong handle *instances* in existence that point to `t`.
    pub fn strong(&self, t: Oid) -> usize {
        let mut c = self.roots.iter().filter(|&&x| x == t).count();
        c += self.raws.iter().filter(|&&x| x == t).count();
        for o in &self.objs {
            c += o.slots.iter().filter(|&&x| x == t).count();
        }
        c
    }

    pub fn weak(&self, t: Oid) -> usize {
        let mut c = self.wroots.iter().filter(|&&x| x == t).count();
        c += self.wraws.iter().filter(|&&x| x == t).count();
        for o in &self.objs {
            c += o.wslots.iter().filter(|&&x| x == t).count();
        }
        c
    }

    pub fn held(&self, o: Oid, t: Oid) -> usize {
        self.objs[o as usize].slots.iter().filter(|&&x| x == t).count()
    }

    pub fn rec(&self, o: Oid, t: Oid) -> usize {
        *self.r.get(&(o, t)).unwrap_or(&0)
    }

    pub fn has_records(&self, x: Oid) -> bool {
        self.l.get(&x).copied().unwrap_or(0) > 0 || self.r.iter().any(|(&(a, b), &c)| c > 0 && (a == x || b == x))
    }

    pub fn has_pair_records(&self, x: Oid) -> bool {
        self.r.iter().any(|(&(a, b), &c)| c > 0 && (a == x || b == x))
    }

    pub fn add_rec(&mut self, o: Oid, t: Oid) {
        *self.r.entry((o, t)).or_insert(0) += 1;
        self.objs[o as usize].ever_recorded = true;
        self.objs[t as usize].ever_recorded = true;
    }

    /// saturating removal of one record; returns (had_record, hit_zero)
    pub fn sub_rec(&mut self, o: Oid, t: Oid) -> (bool, bool) {
        match self.r.get_mut(&(o, t)) {
            Some(c) if *c > 0 => {
                *c -= 1;
                if *c == 0 {
                    self.r.remove(&(o, t));
                    (true, true)
                } else {
                    (true, false)
                }
            }
            _ => (false, false),
        }
    }

    pub fn purge(&mut self, x: Oid) {
        self.r.retain(|&(a, b), _| a != x && b != x);
        self.l.remove(&x);
    }

    /// Forward closure of `x` over recorded adoptions (x included), sorted.
    pub fn closure(&self, x: Oid) -> Vec<Oid> {
        let mut seen = vec![false; self.n()];
        let mut work = vec![x];
        seen[x as usize] = true;
        while let Some(v) = work.pop() {
            for (&(a, b), &c) in self.r.range((v, 0)..=(v, Oid::MAX)) {
                debug_assert_eq!(a, v);
                if c > 0 && !seen[b as usize] {
                    seen[b as usize] = true;
                    work.push(b);
                }
            }
        }
        (0..self.n() as Oid).filter(|&i| seen[i as usize]).collect()
    }

    /// No stale record anywhere: every recorded adoption is backed by a handle
    /// the owner still stores (ELIDE histories: once the stale records have
    /// been purged by the death of their targets or removed by a late unadopt,
    /// the bookkeeping is exact again and rule A is a sound oracle again).
    pub fn ledger_clean(&self) -> bool {
        self.r.iter().all(|(&(o, t), &c)| c == 0 || (self.objs[o as usize].st == St::Alive && c <= self.held(o, t)))
    }

    /// Rule A of DESIGN §3.3: every strong handle to every member of
    /// Closure(x) is a recorded adoption held by a member.
    pub fn rule_a(&self, x: Oid) -> Option<Vec<Oid>> {
        if !self.has_pair_records(x) {
            return None;
        }
        let c = self.closure(x);
        for &t in &c {
            if self.objs[t as usize].st != St::Alive {
                return None;
            }
            let internal: usize = c.iter().map(|&v| self.rec(v, t)).sum();
            if self.strong(t) != internal {
                return None;
            }
        }
        Some(c)
    }

    /// What the *documented* algorithm decides on the ledger (used for the
    /// known-finding predicate of C13): keys = closure + recorded adopters of
    /// members; condemned iff no key has strong > recorded-from-closure.
    pub fn documented_condemns(&self, x: Oid) -> Option<Vec<Oid>> {
        if !self.has_pair_records(x) {
            return None;
        }
        let c = self.closure(x);
        // a traced object without outgoing records and not adopted by a traced
        // object does not appear as key unless x itself has any record
        let mut keys: Vec<Oid> = vec![];
        for &v in &c {
            for (&(a, b), &cnt) in self.r.iter() {
                if cnt == 0 {
                    continue;
                }
                if a == v && !keys.contains(&b) {
                    keys.push(b);
                }
                if b == v && !keys.contains(&a) {
                    keys.push(a);
                }
            }
        }
        if keys.is_empty() {
            return None;
        }
        for &k in &keys {
            let internal: usize = c.iter().map(|&v| self.rec(v, k)).sum();
            if self.strong(k) > internal {
                return None;
            }
        }
        keys.sort();
        Some(keys)
    }

    /// Objects reachable from handles the program still holds, with the first
    /// handle found for each (for path resolution on the real side).
    pub fn reach(&self) -> (Vec<bool>, Vec<Option<HLoc>>) {
        let n = self.n();
        let mut seen = vec![false; n];
        let mut parent: Vec<Option<HLoc>> = vec![None; n];
        let mut work: Vec<Oid> = vec![];
        for (i, &t) in self.roots.iter().enumerate() {
            if !seen[t as usize] {
                seen[t as usize] = true;
                parent[t as usize] = Some(HLoc::Root(i));
                work.push(t);
            }
        }
        for (i, o) in self.objs.iter().enumerate() {
            if o.loose && o.st == St::Alive && !seen[i] {
                seen[i] = true;
                work.push(i as Oid);
            }
        }
        // breadth-first so that paths are short
        let mut qi = 0;
        while qi < work.len() {
            let v = work[qi];
            qi += 1;
            let o = &self.objs[v as usize];
            // handles of an object only accessible through a raw pointer are
            // reachable (the program may rebuild the handle) but have no path
            for (j, &t) in o.slots.iter().enumerate() {
                if !seen[t as usize] {
                    seen[t as usize] = true;
                    if parent[v as usize].is_some() || o.loose {
                        parent[t as usize] = Some(HLoc::Slot(v, j));
                    }
                    work.push(t);
                }
            }
        }
        // second pass: objects only reachable through raw pointers (no path)
        for &t in &self.raws {
            if !seen[t as usize] {
                seen[t as usize] = true;
                work.push(t);
            }
        }
        while qi < work.len() {
            let v = work[qi];
            qi += 1;
            for &t in self.objs[v as usize].slots.iter() {
                if !seen[t as usize] {
                    seen[t as usize] = true;
                    work.push(t);
                }
            }
        }
        (seen, parent)
    }

    /// All strong handle instances the program can name right now: roots, then
    /// slots of every object it can get a reference to (by id, by slot).
    pub fn handles(&self) -> Vec<(HLoc, Oid)> {
        let (_seen, parent) = self.reach();
        let mut v: Vec<(HLoc, Oid)> = self.roots.iter().enumerate().map(|(i, &t)| (HLoc::Root(i), t)).collect();
        for (i, o) in self.objs.iter().enumerate() {
            if o.st != St::Alive {
                continue;
            }
            if parent[i].is_some() || o.loose {
                for (j, &t) in o.slots.iter().enumerate() {
                    v.push((HLoc::Slot(i as Oid, j), t));
                }
            }
        }
        v
    }

    /// Objects whose value the program can get a reference to.
    pub fn accessible(&self) -> Vec<Oid> {
        let (_seen, parent) = self.reach();
        (0..self.n())
            .filter(|&i| self.objs[i].st == St::Alive && (parent[i].is_some() || self.objs[i].loose))
            .map(|i| i as Oid)
            .collect()
    }

    pub fn in_open_obligation(&self, t: Oid) -> bool {
        self.stack.iter().any(|b| b.obligation.contains(&t))
    }

    pub fn remove_slot_instance(&mut self, owner: Oid, target: Oid) {
        let s = &mut self.objs[owner as usize].slots;
        if let Some(p) = s.iter().position(|&x| x == target) {
            s.remove(p);
        }
    }

    pub fn remove_wslot_instance(&mut self, owner: Oid, target: Oid) {
        let s = &mut self.objs[owner as usize].wslots;
        if let Some(p) = s.iter().position(|&x| x == target) {
            s.remove(p);
        }
    }

    pub fn in_degree(&self, t: Oid) -> usize {
        self.r.iter().filter(|(&(_, b), _)| b == t).map(|(_, &c)| c).sum()
    }

    pub fn out_degree(&self, o: Oid) -> usize {
        self.r.iter().filter(|(&(a, _), _)| a == o).map(|(_, &c)| c).sum()
    }
}
